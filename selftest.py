"""Sensitivity self-test (DESIGN.md §9): apply one mutant at a time to a scratch copy of /repo/gmlc and require
that the property's quick check reports a VIOLATION.  Mutants are textual replacements listed in mutants.py.

  ./check selftest                 all mutants
  ./check selftest C03             mutants of one property
  ./check selftest lr-no-drain1    one mutant by name
Options: --tier quick|thorough (default quick), --keep-going (default), --seed N
"""
import os, sys, shutil, subprocess, tempfile, time, json

VERIF = os.path.dirname(os.path.abspath(__file__))


def run_selftest(args):
    from mutants import MUTANTS
    tier = "quick"
    seed = os.environ.get("VERIF_SEED", "1")
    sel = []
    i = 0
    while i < len(args):
        if args[i] == "--tier":
            tier = args[i + 1]; i += 2
        elif args[i] == "--seed":
            seed = args[i + 1]; i += 2
        else:
            sel.append(args[i]); i += 1
    chosen = [m for m in MUTANTS if not sel or m["name"] in sel or any(p in sel for p in m["props"])]
    results = []
    src_repo = os.environ.get("VERIF_REPO", "/repo")
    for m in chosen:
        scratch = tempfile.mkdtemp(prefix="verif-mut-", dir="/tmp")
        try:
            shutil.copytree(os.path.join(src_repo, "gmlc"), os.path.join(scratch, "gmlc"))
            ok_apply = True
            for ed in m["edits"]:
                p = os.path.join(scratch, ed["file"])
                s = open(p).read()
                if s.count(ed["old"]) < 1:
                    ok_apply = False
                    break
                s = s.replace(ed["old"], ed["new"], ed.get("count", 1))
                open(p, "w").write(s)
            if not ok_apply:
                results.append((m["name"], "APPLY-FAILED", 0.0, ""))
                print(f"{m['name']:40s} APPLY-FAILED")
                continue
            for pid in m["props"]:
                if sel and pid not in sel and m["name"] not in sel and not any(p in sel for p in m["props"]):
                    continue
                env = dict(os.environ)
                env["VERIF_REPO"] = scratch
                env["VERIF_EVIDENCE_DIR"] = os.path.join(scratch, "evidence")
                env["VERIF_SEED"] = str(seed)
                t0 = time.time()
                r = subprocess.run([os.path.join(VERIF, "check"), pid, "--tier", tier], stdout=subprocess.PIPE, stderr=subprocess.STDOUT, text=True, env=env, cwd=VERIF)
                dt = time.time() - t0
                viol = [l for l in r.stdout.splitlines() if l.startswith("VIOLATION")]
                detail = [l for l in r.stdout.splitlines() if l.startswith("  ")]
                status = "KILLED" if (r.returncode == 1 and viol) else ("BUILD-ERROR" if r.returncode == 2 else ("UNHEALTHY" if r.returncode == 3 else "SURVIVED"))
                results.append((m["name"] + "@" + pid, status, dt, (detail[0].strip() if detail else r.stdout.strip()[-200:])))
                print(f"{m['name'] + '@' + pid:40s} {status:12s} {dt:6.1f}s  {(detail[0].strip() if detail else '')[:140]}")
                sys.stdout.flush()
        finally:
            shutil.rmtree(scratch, ignore_errors=True)
    # restore evidence files for the unchanged tree is the caller's business (selftest overwrites evidence/<id>.json)
    surv = [r for r in results if r[1] != "KILLED"]
    print(f"selftest: {len(results) - len(surv)}/{len(results)} killed")
    os.makedirs(os.path.join(VERIF, ".work"), exist_ok=True)
    with open(os.path.join(VERIF, ".work", "selftest-last.json"), "w") as f:
        json.dump([{"mutant": a, "status": b, "secs": round(c, 1), "detail": d} for a, b, c, d in results], f, indent=1)
    return 1 if surv else 0
