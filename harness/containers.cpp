// Family "containers": DelayedDestructor / DelayedDestructorSingleThread (C16), SearchableObjectHolder (C17), DelayedObjects (C18).
#include "common.hpp"
#include "../vrt/linearize.hpp"

namespace {

// ================================================================================================ C16 DelayedDestructor
struct Obj16;
struct ScopedDepth { int& d; explicit ScopedDepth(int& x) : d(x) { ++d; } ~ScopedDepth() { --d; } };
struct Info16 {
    int id = 0; int destroyed = 0; int callbacks = 0; int entries = 0;
    std::shared_ptr<Obj16> ext;
    int reenter = 0;                    // 0 none, 1 size(), 2 add a fresh object, 3 destroyObjects()
    long add_ret = -1;
    bool cb_while_ext = false;
};
struct Ctx16 {
    std::deque<Info16> infos;
    std::function<size_t()> do_size, do_destroy;
    std::function<void(std::shared_ptr<Obj16>)> do_add;
    bool container_alive = false;
    bool has_mutex = true;
    long live_entries = 0;              // model: entries currently in the container
    int destroys_in_flight = 0;
    bool with_cb = false, faults = false;
    int in_destroy[vrt::MAXF] = {0};   // per fiber: depth of destroyObjects calls in progress
    bool lbl_reentered = false, lbl_dtor_in_container_dtor = false, lbl_timeout = false, lbl_concurrent_destroy = false, lbl_shared_survived = false; int lbl_batch = 0;
    Info16& fresh(int reenter) { infos.emplace_back(); infos.back().id = (int)infos.size() - 1; infos.back().reenter = reenter; return infos.back(); }
};
Ctx16* C16 = nullptr;
struct Obj16 {
    Info16* info; uint32_t canary = 0xC0FFEE;
    explicit Obj16(Info16* i) : info(i) {}
    ~Obj16() {
        if (canary != 0xC0FFEE) vrt::fail("double-destroy", "an object handed to the DelayedDestructor was destroyed twice");
        canary = 0;
        Ctx16& X = *C16;
        info->destroyed++;
        if (info->destroyed > 1) vrt::fail("double-destroy", "an object handed to the DelayedDestructor was destroyed twice");
        if (info->ext) vrt::fail("destroyed-while-owned", "an object was destroyed while another owner still holds it");
        if (vrt::rt().cur && vrt::me().held != 0) vrt::fail("destructor-under-lock", "an element destructor ran while the calling thread holds the container's lock");
        X.live_entries -= info->entries; info->entries = 0;
        if (!X.container_alive) { X.lbl_dtor_in_container_dtor = true; return; }
        // destroyed by the thread that is inside destroyObjects, i.e. reaped by that call: its callback must have run first
        if (X.with_cb && !X.faults && vrt::rt().cur && X.in_destroy[vrt::self()] > 0 && info->callbacks == 0)
            vrt::fail("callback-missing", "an object was reaped by destroyObjects without its pre-destruction callback");
        vrt::step();
        if (info->reenter && X.container_alive) {
            X.lbl_reentered = true;
            if (info->reenter == 1) (void)X.do_size();
            else if (info->reenter == 2) { Info16& n = X.fresh(0); auto p = std::make_shared<Obj16>(&n); n.entries++; X.live_entries++; X.do_add(std::move(p)); n.add_ret = vrt::now_step(); }
            else (void)X.do_destroy();
        }
    }
};

template<class DD>
vh::Outcome run_c16(const vh::Case& c, bool concurrent, bool locked_class) {
    reset_case_globals();
    Ctx16 X; C16 = &X; X.has_mutex = locked_class;
    vh::Outcome out;
    bool with_cb = c.cfg.size() > 1 && c.cfg[1] % 2 == 1;
    int cb_reenter = c.cfg.size() > 2 ? c.cfg[2] % 3 : 0;       // 0 none, 1 size, 2 add
    bool faults = c.sched.fault_k != 0;
    long adds = 0, destroy_calls = 0;
    out.res = vrt::run(c.sched, [&] {
        {
            std::function<void(std::shared_ptr<Obj16>&)> cb;
            if (with_cb) cb = [&](std::shared_ptr<Obj16>& p) {
                Info16* in = p->info;
                in->callbacks++;
                if (in->callbacks > 1) vrt::fail("callback-twice", "the pre-destruction callback ran twice for one object");
                if (in->destroyed) vrt::fail("callback-after-destroy", "the callback ran for an object that was already destroyed");
                if (in->ext) vrt::fail("callback-for-survivor", "the callback ran for an object that still has another owner (it is not being reaped)");
                if (vrt::rt().cur && vrt::me().held != 0) vrt::fail("callback-under-lock", "the callback ran while the calling thread holds the container's lock");
                vrt::step();
                vrt::fault_point(vrt::F_CALLBACK);
                if (cb_reenter == 1 && X.container_alive) { X.lbl_reentered = true; (void)X.do_size(); }
                else if (cb_reenter == 2 && X.container_alive) { X.lbl_reentered = true; Info16& n = X.fresh(0); auto q = std::make_shared<Obj16>(&n); n.entries++; X.live_entries++; X.do_add(std::move(q)); n.add_ret = vrt::now_step(); }
            };
            std::unique_ptr<DD> dd(with_cb ? new DD(cb) : new DD());
            X.container_alive = true;
            X.do_size = [&] { return (size_t)dd->size(); };
            X.with_cb = with_cb; X.faults = faults;
            X.do_destroy = [&] { ScopedDepth sd(X.in_destroy[vrt::self()]); return dd->destroyObjects(); };
            X.do_add = [&](std::shared_ptr<Obj16> p) { dd->addObjectsToBeDestroyed(std::move(p)); };
            auto run_ops = [&](const std::vector<vh::Op>& ops) {
                for (auto& op : ops) {
                    int kind = op.code % 8;
                    if ((kind == 0 || kind == 7) && (op.b >> 2) == 7 && X.lbl_batch == 0) {   // a large batch of fresh, unshared objects (one per case): one sweep reaps dozens / hundreds at once
                        static const int batch[4] = {33, 40, 70, 300};
                        int nb = batch[cb_reenter == 2 ? 0 : op.a % 4];      // (a callback that adds an object per reaped object doubles the work: keep that combination small)
                        X.lbl_batch = std::max(X.lbl_batch, nb);
                        for (int q = 0; q < nb; ++q) {
                            Info16& in = X.fresh(0);
                            auto p = std::make_shared<Obj16>(&in);
                            in.entries++; X.live_entries++; adds++;
                            dd->addObjectsToBeDestroyed(std::move(p));
                            in.add_ret = vrt::now_step();
                        }
                    } else if (kind == 0 || kind == 7) {            // add fresh, unshared
                        Info16& in = X.fresh((op.b & 1) ? 1 + op.a % 3 : 0);
                        auto p = std::make_shared<Obj16>(&in);
                        in.entries++; X.live_entries++; adds++;
                        dd->addObjectsToBeDestroyed(std::move(p));
                        in.add_ret = vrt::now_step();
                    } else if (kind == 1) {                         // add with an external owner
                        Info16& in = X.fresh(0);
                        in.ext = std::make_shared<Obj16>(&in);
                        in.entries++; X.live_entries++; adds++;
                        dd->addObjectsToBeDestroyed(in.ext);
                        in.add_ret = vrt::now_step();
                    } else if (kind == 2) {                         // add an externally owned object a second time
                        for (auto& in : X.infos) if (in.ext && in.entries == 1 && in.add_ret >= 0) { in.entries++; X.live_entries++; adds++; dd->addObjectsToBeDestroyed(in.ext); break; }
                    } else if (kind == 3) {                         // drop an external owner
                        int k = 0;
                        for (auto& in : X.infos) if (in.ext && (k++ == op.a % 3 || true)) { auto tmp = std::move(in.ext); in.ext.reset(); tmp.reset(); break; }
                    } else if (kind == 4 || kind == 5) {            // destroyObjects
                        // objects that must be gone when the call returns: in the container once, add returned, no other owner, when the call begins
                        std::vector<Info16*> must;
                        for (auto& in : X.infos) if (in.entries == 1 && !in.ext && in.add_ret >= 0 && !in.destroyed) must.push_back(&in);
                        bool overlapped = X.destroys_in_flight > 0;
                        if (overlapped) X.lbl_concurrent_destroy = true;
                        X.destroys_in_flight++; destroy_calls++;
                        long tf0 = vrt::me().timed_failures;
                        size_t r;
                        {
                            ScopedDepth sd(X.in_destroy[vrt::self()]);
                            if (kind == 4) r = dd->destroyObjects();
                            else { static const int delays[4] = {0, 3, 60, 120}; r = dd->destroyObjects(std::chrono::milliseconds(delays[op.b % 4])); }
                        }
                        X.destroys_in_flight--;
                        if (X.destroys_in_flight > 0) overlapped = true;
                        bool timed_out = vrt::me().timed_failures != tf0;
                        if (timed_out) X.lbl_timeout = true;
                        if (!overlapped && !timed_out && !faults) {
                            for (Info16* in : must) {
                                if (in->destroyed != 1) vrt::fail("not-destroyed", "destroyObjects left an object that had no other owner when the call began");
                                if (with_cb && in->callbacks != 1) vrt::fail("callback-missing", "an object was reaped by destroyObjects without its pre-destruction callback");
                            }
                            if (!concurrent && r != (size_t)X.live_entries) vrt::fail("size-mismatch", "destroyObjects returned " + std::to_string(r) + ", model has " + std::to_string(X.live_entries) + " entries");
                        }
                    } else {                                        // size()
                        long lo = 0;
                        for (auto& in : X.infos) if (in.ext && in.add_ret >= 0) lo += 1;
                        size_t s = (size_t)dd->size();
                        if (!concurrent && s != (size_t)X.live_entries) vrt::fail("size-mismatch", "size() returned " + std::to_string(s) + ", model has " + std::to_string(X.live_entries) + " entries");
                        if (concurrent) {
                            long hi = 0; for (auto& in : X.infos) hi += in.entries + (in.destroyed && in.entries == 0 ? 0 : 0);
                            long still = 0; for (auto& in : X.infos) if (in.ext && in.add_ret >= 0 && in.entries >= 1) still++;
                            (void)lo; (void)hi;
                            if ((long)s > (long)adds + (long)X.infos.size()) vrt::fail("size-bound", "size() exceeds the number of objects ever added");
                            if ((long)s < 0) vrt::fail("size-bound", "size() negative");
                            (void)still;
                        }
                    }
                    for (auto& in : X.infos) if (in.ext && in.entries >= 1 && in.destroyed == 0) X.lbl_shared_survived = true;
                }
            };
            if (!concurrent) run_ops(c.fibers.empty() ? std::vector<vh::Op>() : c.fibers[0]);
            else {
                for (size_t i = 0; i < c.fibers.size(); ++i) if (!c.fibers[i].empty()) vrt::spawn([&, i] { run_ops(c.fibers[i]); });
                vrt::join_all();
            }
            // destroy the container: objects without another owner must be destroyed by the time it is gone
            std::vector<Info16*> must;
            for (auto& in : X.infos) if (!in.ext && !in.destroyed) must.push_back(&in);
            X.container_alive = false;      // re-entry is not generated during container destruction (DESIGN: abstains)
            dd.reset();
            for (Info16* in : must) if (in->destroyed != 1) vrt::fail("leaked-object", "an object with no other owner was not destroyed when the DelayedDestructor was destroyed");
        }
        // finally the remaining owners go away: everything is destroyed exactly once
        for (auto& in : X.infos) { auto tmp = std::move(in.ext); in.ext.reset(); tmp.reset(); }
        for (auto& in : X.infos) if (in.destroyed != 1) vrt::fail("destroy-count", "an object was destroyed " + std::to_string(in.destroyed) + " times");
    });
    C16 = nullptr;
    if (X.lbl_reentered) out.labels.push_back("re-entered");
    if (X.lbl_timeout) out.labels.push_back("lock-timeout");
    if (X.lbl_concurrent_destroy) out.labels.push_back("concurrent-destroyObjects");
    if (X.lbl_shared_survived) out.labels.push_back("shared-object-survived");
    if (X.lbl_batch) out.labels.push_back("batch=" + std::to_string(X.lbl_batch));
    if (with_cb) out.labels.push_back("callback");
    out.labels.push_back(locked_class ? "class=locked" : "class=single-thread");
    if (out.res.faults_fired) out.labels.push_back("fault-fired");
    out.nontrivial = destroy_calls > 0 && adds > 0 && (X.lbl_reentered || X.lbl_shared_survived || X.lbl_concurrent_destroy || X.lbl_timeout);
    if (faults) out.nontrivial = out.res.faults_fired > 0;
    return out;
}

// C16t: a trivially destructible element type (int) whose shared_ptr carries a custom deleter: releasing it runs user code too,
// which must happen outside the container's lock and may re-enter the container
vh::Outcome run_c16t(const vh::Case& c) {
    reset_case_globals();
    vh::Outcome out;
    bool with_cb = c.cfg.size() > 1 && c.cfg[1] % 2 == 1;
    int released = 0, added = 0; bool reentered = false;
    out.res = vrt::run(c.sched, [&] {
        std::function<void(std::shared_ptr<int>&)> cb;
        if (with_cb) cb = [&](std::shared_ptr<int>&) { if (vrt::me().held != 0) vrt::fail("callback-under-lock", "the callback ran while the calling thread holds the container's lock"); };
        std::unique_ptr<gc::DelayedDestructor<int>> dd(with_cb ? new gc::DelayedDestructor<int>(cb) : new gc::DelayedDestructor<int>());
        bool alive = true;
        auto make = [&](int reenter) {
            added++;
            return std::shared_ptr<int>(new int(added), [&, reenter](int* p) {
                released++;
                if (vrt::rt().cur && vrt::me().held != 0) vrt::fail("destructor-under-lock", "an element's deleter ran while the calling thread holds the container's lock");
                delete p;
                if (alive && reenter == 1) { reentered = true; (void)dd->size(); }
                else if (alive && reenter == 2) { reentered = true; (void)dd->destroyObjects(); }
            });
        };
        auto run_ops = [&](const std::vector<vh::Op>& ops) {
            std::vector<std::shared_ptr<int>> mine;
            for (auto& op : ops) {
                switch (op.code % 5) {
                    case 0: dd->addObjectsToBeDestroyed(make(op.a % 3)); break;
                    case 1: { auto p = make(0); mine.push_back(p); dd->addObjectsToBeDestroyed(p); break; }
                    case 2: if (!mine.empty()) mine.pop_back(); break;
                    case 3: (void)dd->destroyObjects(); break;
                    default: (void)dd->size(); break;
                }
            }
        };
        for (size_t i = 0; i < c.fibers.size(); ++i) if (!c.fibers[i].empty()) vrt::spawn([&, i] { run_ops(c.fibers[i]); });
        vrt::join_all();
        alive = false;
        dd.reset();
        if (released != added) vrt::fail("destroy-count", "objects handed to the DelayedDestructor were released " + std::to_string(released) + " times for " + std::to_string(added) + " objects");
    });
    if (reentered) out.labels.push_back("re-entered");
    if (with_cb) out.labels.push_back("callback");
    out.nontrivial = added > 0 && (reentered || out.res.blocked_events > 0);
    return out;
}

// ================================================================================================ C17 SearchableObjectHolder
struct Obj17 { int id; uint32_t canary = 0x0B1EC7; explicit Obj17(int i) : id(i) {} ~Obj17() { canary = 0; } };
using SOH = gc::SearchableObjectHolder<Obj17, int>;
const char* NAMES[] = {"a", "b", "c", "", "x", "y"};     // (the empty string is a legal name)   // x, y are reserved: pre-added, targets of addType, never removed

enum K17 { S_ADD, S_ADDT, S_ADDTYPE, S_COPY, S_REMOVE, S_REMOVEP, S_FIND, S_FINDP, S_FINDPT, S_CHECKTYPE, S_GETOBJS, S_EMPTY, S_NK, S_FINAL };
struct Ent17 { int id; bool has_tags; std::vector<int> tags; };
struct Op17 { int kind; int n1 = 0, n2 = 0; int id = -1; int tag = 0; uint32_t mask = 0; bool rbool = false; int rid = -1; std::vector<int> rids; std::map<int, Ent17> observed; };
using Model17 = std::map<int, Ent17>;   // name index -> entry

// Names whose tag set is not determined by the property: addType on a name that is not stored leaves tags behind that a later
// addObject / copyObject of that name may or may not pick up.  The set is computed per case from the program text (closed under
// copyObject), and every tag question about such a name accepts either answer; objects, names and memory safety stay exact.
uint32_t g_taint17 = 0;
std::string key17(const Model17& m) {
    std::string s;
    for (auto& kv : m) { s += std::to_string(kv.first) + ":" + std::to_string(kv.second.id) + (kv.second.has_tags ? "t" : "n"); for (int t : kv.second.tags) s += std::to_string(t); s += ";"; }
    return s;
}
// successors of `m` under `op` whose result matches the recorded one
void step17(const Model17& m, const Op17& op, std::vector<Model17>& outv) {
    auto has_tag = [](const Ent17& e, int t) { return e.has_tags && std::find(e.tags.begin(), e.tags.end(), t) != e.tags.end(); };
    auto tainted = [](int name) { return ((g_taint17 >> name) & 1) != 0; };
    switch (op.kind) {
        case S_ADD: case S_ADDT: {
            bool absent = !m.count(op.n1);
            if (absent != op.rbool) return;
            Model17 m2 = m;
            if (absent) m2[op.n1] = Ent17{op.id, op.kind == S_ADDT, op.kind == S_ADDT ? std::vector<int>{op.tag} : std::vector<int>{}};
            outv.push_back(std::move(m2)); return;
        }
        case S_ADDTYPE: { Model17 m2 = m; auto it = m2.find(op.n1); if (it == m2.end()) { outv.push_back(std::move(m2)); return; } it->second.has_tags = true; it->second.tags.push_back(op.tag); outv.push_back(std::move(m2)); return; }
        case S_COPY: {
            bool ok = m.count(op.n1) && !m.count(op.n2);
            if (ok != op.rbool) return;
            Model17 m2 = m; if (ok) m2[op.n2] = m.at(op.n1);
            outv.push_back(std::move(m2)); return;
        }
        case S_REMOVE: { bool ok = m.count(op.n1); if (ok != op.rbool) return; Model17 m2 = m; m2.erase(op.n1); outv.push_back(std::move(m2)); return; }
        case S_REMOVEP: {
            bool any = false;
            for (auto& kv : m) if ((op.mask >> kv.second.id) & 1) { any = true; if (op.rbool) { Model17 m2 = m; m2.erase(kv.first); outv.push_back(std::move(m2)); } }
            if (!any && !op.rbool) outv.push_back(m);
            return;
        }
        case S_FIND: { auto it = m.find(op.n1); int exp = it == m.end() ? -1 : it->second.id; if (exp == op.rid) outv.push_back(m); return; }
        case S_FINDP: {
            bool any = false, match = false;
            for (auto& kv : m) if ((op.mask >> kv.second.id) & 1) { any = true; if (kv.second.id == op.rid) match = true; }
            if ((op.rid < 0 && !any) || match) outv.push_back(m);
            return;
        }
        case S_FINDPT: {
            bool any = false, match = false;
            for (auto& kv : m) if ((op.mask >> kv.second.id) & 1) {
                bool yes = has_tag(kv.second, op.tag), unknown = tainted(kv.first);
                if (yes && !unknown) any = true;                                   // a definite match exists: null is not an acceptable answer
                if ((yes || unknown) && kv.second.id == op.rid) match = true;
            }
            if ((op.rid < 0 && !any) || match) outv.push_back(m);
            return;
        }
        case S_CHECKTYPE: { auto it = m.find(op.n1); bool exp = it != m.end() && has_tag(it->second, op.tag); if (exp == op.rbool || tainted(op.n1)) outv.push_back(m); return; }
        case S_GETOBJS: { std::vector<int> ids; for (auto& kv : m) ids.push_back(kv.second.id); std::sort(ids.begin(), ids.end()); if (ids == op.rids) outv.push_back(m); return; }
        case S_EMPTY: { if (m.empty() == op.rbool) outv.push_back(m); return; }
        case S_FINAL: {
            // the complete state observed sequentially after the run: names, objects, tag sets (0..2)
            if (m.size() != op.observed.size()) return;
            for (auto& kv : m) {
                auto it = op.observed.find(kv.first);
                if (it == op.observed.end() || it->second.id != kv.second.id) return;
                if (!tainted(kv.first)) for (int t = 0; t < 3; ++t) if (has_tag(kv.second, t) != has_tag(it->second, t)) return;
            }
            outv.push_back(m); return;
        }
    }
}

// nondeterministic-successor variant of the WGL search
bool linearizable17(const std::vector<Op17>& ops, const std::vector<vlin::Interval>& iv, const Model17& init) {
    size_t n = ops.size();
    if (n == 0 || n > 26) return true;
    std::unordered_set<std::string> dead;
    std::vector<std::pair<uint32_t, Model17>> stack{{0u, init}};
    while (!stack.empty()) {
        auto f = std::move(stack.back()); stack.pop_back();
        if (f.first == (n == 32 ? ~0u : (1u << n) - 1)) return true;
        if (!dead.insert(std::to_string(f.first) + "|" + key17(f.second)).second) continue;
        long min_ret = -1;
        for (size_t i = 0; i < n; ++i) if (!(f.first & (1u << i)) && (min_ret < 0 || iv[i].ret < min_ret)) min_ret = iv[i].ret;
        for (size_t i = 0; i < n; ++i) {
            if ((f.first & (1u << i)) || iv[i].call > min_ret) continue;
            std::vector<Model17> succ;
            step17(f.second, ops[i], succ);
            for (auto& m2 : succ) stack.push_back({f.first | (1u << i), std::move(m2)});
        }
    }
    return false;
}

vh::Outcome run_c17(const vh::Case& c, bool concurrent) {
    reset_case_globals();
    vh::Outcome out;
    std::vector<Op17> hist; std::vector<vlin::Interval> iv;
    int next_id = 2;
    bool lbl_removep = false, lbl_overlap = false, lbl_copy = false, lbl_kept_after_remove = false;
    int in_flight = 0;
    bool faults = c.sched.fault_k != 0;
    // tag-indeterminate names of this program (see g_taint17)
    auto decode_n1 = [](const vh::Op& o) { int k = o.code % S_NK; if (k == S_ADDTYPE) return ((o.b & 12) == 4) ? o.a % 4 : 4 + (o.a & 1); if (k == S_COPY && (o.b & 4)) return 4 + (o.a & 1); return o.a % 4; };
    g_taint17 = 0;
    for (auto& f : c.fibers) for (auto& o : f) if (o.code % S_NK == S_ADDTYPE && decode_n1(o) < 4) g_taint17 |= 1u << decode_n1(o);
    for (int round = 0; round < 4; ++round) for (auto& f : c.fibers) for (auto& o : f) if (o.code % S_NK == S_COPY && ((g_taint17 >> decode_n1(o)) & 1)) g_taint17 |= 1u << ((o.a / 4) % 4);
    bool lbl_orphan_type = g_taint17 != 0;
    out.res = vrt::run(c.sched, [&] {
        std::vector<std::shared_ptr<Obj17>> returned;   // objects handed to callers: must stay alive
        {
            SOH soh;
            Model17 init;
            // reserved entries
            soh.addObject("x", std::make_shared<Obj17>(0)); init[4] = Ent17{0, false, {}};
            soh.addObject("y", std::make_shared<Obj17>(1), 1); init[5] = Ent17{1, true, {1}};
            auto pred = [&](uint32_t mask) {
                return [mask](const std::shared_ptr<Obj17>& p) { if (p->canary != 0x0B1EC7) vrt::fail("dead-object", "predicate called on a destroyed object"); vrt::step(); vrt::fault_point(vrt::F_PRED); return ((mask >> p->id) & 1) != 0; };
            };
            auto run_ops = [&](const std::vector<vh::Op>& ops) {
                for (auto& o : ops) {
                    Op17 op; op.kind = o.code % S_NK;
                    op.n1 = o.a % 4; op.n2 = (o.a / 4) % 4; op.tag = o.b % 3;
                    // predicates never match the reserved objects (ids 0,1); masks: by id, always (non-reserved), never
                    { int sel = o.b % 5; op.mask = sel == 0 ? 0u : sel <= 2 ? 0xfffffffcu : (1u << (2 + (o.a + o.b) % 12)) | (1u << (2 + o.a % 12)) | (sel == 4 ? (1u << (2 + (o.b / 5) % 12)) : 0u); }
                    if (op.kind == S_ADDTYPE) op.n1 = decode_n1(o);                      // a reserved name, or (b&4) an ordinary name that may not be stored at that moment
                    if (op.kind == S_CHECKTYPE && (o.b & 4)) op.n1 = 4 + (o.a & 1);
                    if (op.kind == S_FIND && (o.b & 4)) op.n1 = 4 + (o.a & 1);
                    if (op.kind == S_COPY && (o.b & 4)) op.n1 = 4 + (o.a & 1);        // copy a reserved (possibly tagged) entry to an ordinary name
                    if (in_flight > 0) lbl_overlap = true;
                    in_flight++;
                    long call = vrt::now_step();
                    bool threw = false;
                    try {
                        switch (op.kind) {
                            case S_ADD: op.id = next_id++ % 30; op.rbool = soh.addObject(NAMES[op.n1], std::make_shared<Obj17>(op.id)); break;
                            case S_ADDT: op.id = next_id++ % 30; op.rbool = soh.addObject(NAMES[op.n1], std::make_shared<Obj17>(op.id), op.tag); break;
                            case S_ADDTYPE: soh.addType(NAMES[op.n1], op.tag); break;
                            case S_COPY: op.rbool = soh.copyObject(NAMES[op.n1], NAMES[op.n2]); lbl_copy = true; break;
                            case S_REMOVE: op.rbool = soh.removeObject(std::string(NAMES[op.n1])); break;
                            case S_REMOVEP: op.rbool = soh.removeObject(pred(op.mask)); if (op.rbool) lbl_removep = true; break;
                            case S_FIND: { auto p = soh.findObject(std::string(NAMES[op.n1])); op.rid = p ? p->id : -1; if (p) returned.push_back(p); break; }
                            case S_FINDP: { auto p = soh.findObject(pred(op.mask)); op.rid = p ? p->id : -1; if (p) returned.push_back(p); break; }
                            case S_FINDPT: { auto p = soh.findObject(pred(op.mask), op.tag); op.rid = p ? p->id : -1; if (p) returned.push_back(p); break; }
                            case S_CHECKTYPE: op.rbool = soh.checkObjectType(NAMES[op.n1], op.tag); break;
                            case S_GETOBJS: { auto v = soh.getObjects(); for (auto& p : v) { op.rids.push_back(p->id); } std::sort(op.rids.begin(), op.rids.end()); if (!v.empty()) returned.push_back(v[0]); break; }
                            default: op.rbool = soh.empty(); break;
                        }
                    } catch (const vrt::InjectedFault&) { threw = true; }
                    long ret = vrt::now_step();
                    in_flight--;
                    if (vrt::me().held != 0) vrt::fail("lock-leaked", "the holder's mutex is still held after an operation returned");
                    if (threw) {
                        // a throwing predicate must leave the map unchanged: record the call as a no-op (find that saw nothing / remove that removed nothing is not asserted)
                        continue;
                    }
                    hist.push_back(op); iv.push_back({call, ret});
                }
            };
            if (!concurrent) run_ops(c.fibers.empty() ? std::vector<vh::Op>() : c.fibers[0]);
            else {
                for (size_t i = 0; i < c.fibers.size(); ++i) if (!c.fibers[i].empty()) vrt::spawn([&, i] { run_ops(c.fibers[i]); });
                vrt::join_all();
            }
            // final observation (sequential): the complete state as one operation
            {
                Op17 op; op.kind = S_FINAL; long call = vrt::now_step();
                auto all = soh.getObjects();
                size_t found = 0;
                for (int n = 0; n < 6; ++n) {
                    auto p = soh.findObject(std::string(NAMES[n]));
                    if (!p) continue;
                    found++;
                    Ent17 e{p->id, true, {}};
                    for (int t = 0; t < 3; ++t) if (soh.checkObjectType(NAMES[n], t)) e.tags.push_back(t);
                    op.observed[n] = e;
                }
                if (all.size() != found) vrt::fail("contents-mismatch", "getObjects() and findObject(name) disagree about the number of stored objects");
                if (soh.empty() != all.empty()) vrt::fail("contents-mismatch", "empty() disagrees with getObjects()");
                hist.push_back(op); iv.push_back({call, vrt::now_step()});
            }
            if (hist.size() <= 20) { if (!linearizable17(hist, iv, init)) vrt::fail("not-linearizable", "the recorded history of SearchableObjectHolder calls has no sequential explanation against the map model"); }
            else if (!concurrent) {
                // exact for sequential programs of any length: propagate the set of possible models call by call
                std::vector<Model17> cur{init};
                for (auto& op : hist) { std::vector<Model17> nxt; std::set<std::string> seen; for (auto& m : cur) { std::vector<Model17> s2; step17(m, op, s2); for (auto& m2 : s2) if (seen.insert(key17(m2)).second) nxt.push_back(std::move(m2)); } if (nxt.empty()) vrt::fail("model-mismatch", "a SearchableObjectHolder call returned a result the map model cannot produce"); cur = std::move(nxt); }
            }
            // remove everything so the holder's destructor does not wait
            for (int n = 0; n < 6; ++n) soh.removeObject(std::string(NAMES[n]));
        }
        for (auto& p : returned) { if (p->canary != 0x0B1EC7) vrt::fail("dead-object", "an object returned to a caller was destroyed while the caller still holds it"); lbl_kept_after_remove = true; }
    });
    if (lbl_removep) out.labels.push_back("removed-by-predicate");
    if (lbl_copy) out.labels.push_back("copyObject");
    if (lbl_orphan_type) out.labels.push_back("addType-on-ordinary-name");
    if (lbl_overlap) out.labels.push_back("calls-overlapped");
    if (hist.size() > 20 && concurrent) out.labels.push_back("history-too-long-for-search");
    if (out.res.faults_fired) out.labels.push_back("fault-fired");
    out.nontrivial = concurrent ? (lbl_overlap && hist.size() >= 3 && hist.size() <= 20) : (lbl_removep || lbl_copy);
    if (faults) out.nontrivial = out.res.faults_fired > 0;
    return out;
}

// ================================================================================================ C18 DelayedObjects
// a value type whose copy / move construction can be made to throw (fault plan, kind F_COPY) while a set/fulfil call is in progress
struct FaultyVal {
    int v = 0;
    FaultyVal() = default;
    explicit FaultyVal(int x) : v(x) {}
    FaultyVal(const FaultyVal& o) : v(o.v) { vrt::fault_point(vrt::F_COPY); }
    FaultyVal(FaultyVal&& o) : v(o.v) { vrt::fault_point(vrt::F_COPY); }
    FaultyVal& operator=(const FaultyVal&) = default;
    FaultyVal& operator=(FaultyVal&&) = default;
    bool operator==(const FaultyVal& o) const { return v == o.v; }
};
struct FaultWin { bool prev = false; FaultWin() { if (vrt::rt().cur) { prev = vrt::me().fault_window; vrt::me().fault_window = true; } } ~FaultWin() { if (vrt::rt().cur) vrt::me().fault_window = prev; } };
// fills a chunk of the current stack with a non-zero pattern so that an indeterminate (default-initialised) value read afterwards is
// visibly not X{}
__attribute__((noinline)) void dirty_stack() { volatile unsigned char junk[2048]; for (size_t i = 0; i < sizeof junk; ++i) junk[i] = (unsigned char)(0xA5 + i); (void)junk[17]; }
template<class X> struct Val;
template<> struct Val<FaultyVal> { static FaultyVal make(int v) { return FaultyVal(v); } static int id(const FaultyVal& x) { return x.v; } };
template<> struct Val<int> { static int make(int v) { return v; } static int dflt() { return 0; } static int id(const int& v) { return v; } };
template<> struct Val<std::string> { static std::string make(int v) { return "value-that-is-long-enough-to-live-on-the-heap-" + std::to_string(v); } static int id(const std::string& s) { return s.empty() ? 0 : std::atoi(s.c_str() + s.rfind('-') + 1); } };

enum K18 { D_GET, D_SET, D_SETMOVE, D_FULFILL, D_FINISHED, D_ISREC, D_ISCOMP, D_AWAIT, D_NK, D_FINAL };
struct Op18 { int kind; int key = 0; int v = 0; bool rbool = false; int rv = 0; std::array<int, 16> fin{}; };   // fin[k]: 0 unknown/absent-or-finished, 1 pending, 2 completed
struct KS { int st = 0; int v = 0; };   // 0 absent, 1 pending, 2 done, 3 finished
using Model18 = std::array<KS, 16>;
std::string key18(const Model18& m) { std::string s; for (auto& k : m) { s += char('0' + k.st); s += std::to_string(k.v); s += ','; } return s; }
bool step18(Model18& m, const Op18& op) {
    KS& k = m[(size_t)op.key % 16];
    switch (op.kind) {
        case D_GET: k.st = 1; k.v = 0; return true;
        case D_SET: case D_SETMOVE: if (k.st == 1) { k.st = 2; k.v = op.v; } return true;
        case D_FULFILL: for (auto& q : m) if (q.st == 1) { q.st = 2; q.v = op.v; } return true;
        case D_FINISHED: if (k.st == 2) k.st = 3; return true;
        case D_ISREC: return op.rbool == (k.st == 1 || k.st == 2);
        case D_ISCOMP: return op.rbool == (k.st == 2);
        case D_AWAIT: return (k.st == 2 || k.st == 3) && k.v == op.rv;
        case D_FINAL: for (size_t i = 0; i < 16; ++i) { int exp = m[i].st == 1 ? 1 : m[i].st == 2 ? 2 : 0; if (exp != op.fin[i]) return false; } return true;
    }
    return false;
}

template<class X>
vh::Outcome run_c18(const vh::Case& c, bool concurrent) {
    reset_case_globals();
    vh::Outcome out;
    std::vector<Op18> hist; std::vector<vlin::Interval> iv;
    bool lbl_set_vs_fulfill = false, lbl_destroy_pending = false, lbl_double_set = false, lbl_overlap = false;
    int in_flight = 0, sets_in_flight = 0, fulfills_in_flight = 0;
    int nextv = 1;
    bool lbl_set_threw = false;
    out.res = vrt::run(c.sched, [&] {
        vrt::rt().faults_need_window = true;        // faults (if planned) fire only inside set / fulfil calls
        std::map<int, std::future<X>> futs;         // key -> future (requested once, by the owning fiber)
        std::set<int> requested, awaited;
        auto skey = [](int k) { return "key-" + std::to_string(k); };
        {
            std::unique_ptr<gc::DelayedObjects<X>> dobj(new gc::DelayedObjects<X>());
            auto rec = [&](Op18 op, long call) { hist.push_back(op); iv.push_back({call, vrt::now_step()}); };
            auto run_ops = [&](const std::vector<vh::Op>& ops, int fiber) {
                int own = 0;
                for (auto& o : ops) {
                    Op18 op; op.kind = o.code % D_NK;
                    op.key = o.a % 12;
                    if (in_flight > 0) lbl_overlap = true;
                    in_flight++;
                    long call = vrt::now_step();
                    bool skip = false;
                    switch (op.kind) {
                        case D_GET: {
                            op.key = fiber * 3 + own % 3; own++;                 // keys are owned by fibers so that each is requested at most once
                            if (requested.count(op.key)) { skip = true; break; }
                            requested.insert(op.key);
                            futs[op.key] = (op.key & 1) ? dobj->getFuture(skey(op.key)) : dobj->getFuture(op.key);
                            break;
                        }
                        case D_SET: case D_SETMOVE: {
                            op.v = nextv++;
                            if (fulfills_in_flight > 0) lbl_set_vs_fulfill = true;
                            sets_in_flight++;
                            X val = Val<X>::make(op.v);
                            try {
                                FaultWin fw;
                                if (op.kind == D_SET) { if (op.key & 1) dobj->setDelayedValue(skey(op.key), val); else dobj->setDelayedValue(op.key, val); }
                                else { if (op.key & 1) dobj->setDelayedValue(skey(op.key), std::move(val)); else dobj->setDelayedValue(op.key, std::move(val)); }
                            } catch (const vrt::InjectedFault&) {
                                // the value's copy/move threw inside the call: the call has no effect (the key stays pending and is fulfilled later)
                                skip = true; lbl_set_threw = true;
                                if (vrt::me().held != 0) vrt::fail("lock-leaked-on-throw", "the container's mutex is still held after setDelayedValue threw");
                            }
                            sets_in_flight--;
                            break;
                        }
                        case D_FULFILL: {
                            op.v = nextv++;
                            if (sets_in_flight > 0) lbl_set_vs_fulfill = true;
                            fulfills_in_flight++;
                            dobj->fulfillAllPromises(Val<X>::make(op.v));
                            fulfills_in_flight--;
                            break;
                        }
                        case D_FINISHED: if (op.key & 1) dobj->finishedWithValue(skey(op.key)); else dobj->finishedWithValue(op.key); break;
                        case D_ISREC: op.rbool = (op.key & 1) ? dobj->isRecognized(skey(op.key)) : dobj->isRecognized(op.key); break;
                        case D_ISCOMP: op.rbool = (op.key & 1) ? dobj->isCompleted(skey(op.key)) : dobj->isCompleted(op.key); break;
                        case D_AWAIT: {
                            // consume one of this fiber's own futures if it is ready (polling; never blocks the OS thread)
                            int k = -1;
                            for (int j = 0; j < 3; ++j) { int kk = fiber * 3 + j; if (futs.count(kk) && !awaited.count(kk)) { k = kk; break; } }
                            if (k < 0) { skip = true; break; }
                            int spins = 0;
                            while (futs[k].wait_for(std::chrono::seconds(0)) != std::future_status::ready && spins++ < 6) vrt::yield_now();
                            if (futs[k].wait_for(std::chrono::seconds(0)) != std::future_status::ready) { skip = true; break; }
                            awaited.insert(k);
                            op.key = k;
                            try { X v = futs[k].get(); op.rv = Val<X>::id(v); }
                            catch (const std::future_error& e) { vrt::fail("future-error", std::string("a future yielded an error: ") + e.what()); }
                            break;
                        }
                    }
                    in_flight--;
                    if (!skip) rec(op, call);
                    if (vrt::me().held != 0) vrt::fail("lock-leaked", "the container's mutex is still held after an operation returned");
                }
            };
            if (!concurrent) run_ops(c.fibers.empty() ? std::vector<vh::Op>() : c.fibers[0], 0);
            else {
                for (size_t i = 0; i < c.fibers.size() && i < 4; ++i) if (!c.fibers[i].empty()) vrt::spawn([&, i] { run_ops(c.fibers[i], (int)i); });
                vrt::join_all();
            }
            // final sequential observation: one operation carrying the recognised/completed status of every key
            std::set<int> pending;
            {
                Op18 f; f.kind = D_FINAL; long c1 = vrt::now_step();
                for (int k = 0; k < 12; ++k) {
                    bool r = (k & 1) ? dobj->isRecognized(skey(k)) : dobj->isRecognized(k);
                    bool cm = (k & 1) ? dobj->isCompleted(skey(k)) : dobj->isCompleted(k);
                    if (cm && !r) vrt::fail("query-inconsistent", "a key is completed but not recognised");
                    f.fin[(size_t)k] = cm ? 2 : r ? 1 : 0;
                    if (r && !cm) pending.insert(k);
                }
                rec(f, c1);
            }
            // futures already completed must be ready now
            for (auto& kv : futs) {
                if (awaited.count(kv.first) || pending.count(kv.first)) continue;
                if (kv.second.wait_for(std::chrono::seconds(0)) != std::future_status::ready) vrt::fail("future-not-ready", "a key is no longer pending but its future is not ready");
                Op18 a; a.kind = D_AWAIT; a.key = kv.first; long c1 = vrt::now_step();
                try { X v = kv.second.get(); a.rv = Val<X>::id(v); } catch (const std::future_error& e) { vrt::fail("future-error", std::string("a future yielded an error: ") + e.what()); }
                awaited.insert(kv.first);
                rec(a, c1);
            }
            if (hist.size() <= 22 || !concurrent) {
                Model18 init{};
                bool ok;
                if (!concurrent) { Model18 m = init; ok = true; for (auto& op : hist) if (!step18(m, op)) { ok = false; break; } }
                else ok = vlin::linearizable(hist, iv, init, step18, key18);
                if (!ok) vrt::fail(concurrent ? "not-linearizable" : "model-mismatch", "DelayedObjects results have no explanation against the per-key life-cycle model");
            }
            if (!pending.empty()) lbl_destroy_pending = true;
            dirty_stack();
            dobj.reset();           // destruction fulfils what is still pending with X{}
            for (int k : pending) {
                if (!futs.count(k)) vrt::fail("phantom-key", "a key is reported pending although no future was requested for it");
                if (futs[k].wait_for(std::chrono::seconds(0)) != std::future_status::ready) vrt::fail("future-not-ready", "a pending future was not fulfilled by destruction of the container");
                try { X v = futs[k].get(); if (!(v == X{})) vrt::fail("destruction-value", "a future pending at destruction did not receive a default-constructed value"); }
                catch (const std::future_error& e) { vrt::fail("future-error", std::string("a future pending at destruction yielded an error: ") + e.what()); }
                awaited.insert(k);
            }
        }
        for (auto& kv : futs) if (!awaited.count(kv.first)) vrt::fail("future-lost", "a future was neither completed nor pending at the end");
        for (auto& op : hist) if ((op.kind == D_SET || op.kind == D_SETMOVE)) { int n = 0; for (auto& o2 : hist) if ((o2.kind == D_SET || o2.kind == D_SETMOVE) && o2.key == op.key) n++; if (n > 1) lbl_double_set = true; }
    });
    if (lbl_set_vs_fulfill) out.labels.push_back("set-overlapped-fulfillAll");
    if (lbl_destroy_pending) out.labels.push_back("destroyed-with-pending");
    if (lbl_double_set) out.labels.push_back("double-set");
    if (lbl_overlap) out.labels.push_back("calls-overlapped");
    if (lbl_set_threw) out.labels.push_back("set-threw");
    if (hist.size() > 22 && concurrent) out.labels.push_back("history-too-long-for-search");
    out.nontrivial = concurrent ? (lbl_overlap && (lbl_set_vs_fulfill || lbl_destroy_pending || lbl_double_set)) : (lbl_destroy_pending || lbl_double_set);
    if (c.sched.fault_k) out.nontrivial = lbl_set_threw;
    return out;
}

// ------------------------------------------------------------------------------------------------ registration
vh::GenSpec s16(bool conc, bool th, bool faults = false) {
    vh::GenSpec g; g.sequential = !conc; g.nfibers = conc ? 4 : 1; g.max_ops = conc ? (th ? 6 : 4) : (th ? 20 : 10); g.ncodes = 8; g.amax = 4; g.bmax = 32; g.cfg_max = {2, 2, 3};
    g.sched_len = th ? 224 : 160; g.aux_len = 40; g.aux_density = 25;
    if (faults) { g.fault_max = 6; g.fault_mask = vrt::F_CALLBACK; g.cfg_max = {2, 1, 3}; }
    return g;
}
vh::Outcome d16(const vh::Case& c, bool conc) {
    bool single = !conc && !c.cfg.empty() && c.cfg[0] % 2 == 1;
    if (c.sched.fault_k) { vh::Case c2 = c; if (c2.cfg.size() > 1) c2.cfg[1] = 1; return single ? run_c16<gc::DelayedDestructorSingleThread<Obj16>>(c2, conc, false) : run_c16<gc::DelayedDestructor<Obj16>>(c2, conc, true); }
    return single ? run_c16<gc::DelayedDestructorSingleThread<Obj16>>(c, conc, false) : run_c16<gc::DelayedDestructor<Obj16>>(c, conc, true);
}
vh::Register r16s("C16s", s16(false, false), s16(false, true), [](const vh::Case& c) { return d16(c, false); },
                  "generated sequential add / add-shared / add-duplicate / drop-owner / destroyObjects / destroyObjects(delay) / size sequences on both classes with and without callback, re-entrant "
                  "destructors and callbacks; non-trivial = at least one add and one destroyObjects and (re-entry happened or an object with another owner survived a destroyObjects)");
vh::Register r16("C16", s16(true, false), s16(true, true), [](const vh::Case& c) { return d16(c, true); },
                 "generated concurrent adders, owners dropping references, destroyObjects and size callers with generated lock time-outs on the locked class; non-trivial = re-entry, concurrent destroyObjects, "
                 "a lock time-out or a surviving shared object occurred");
vh::GenSpec s16t(bool th) { vh::GenSpec g = s16(true, th); g.nfibers = 3; return g; }
vh::Register r16t("C16t", s16t(false), s16t(true), run_c16t,
                  "DelayedDestructor<int> (trivially destructible element) whose shared_ptrs carry a custom deleter that checks that no modelled mutex is held and re-enters size()/destroyObjects(); "
                  "non-trivial = a deleter re-entered or the lock was contended");
vh::Register r20c("C20dd", s16(true, false, true), s16(true, true, true), [](const vh::Case& c) { return d16(c, true); },
                  "as C16 with a throwing pre-destruction callback (k-th invocation throws): destroyObjects must swallow it, destroy every selected object exactly once and leave the container usable");

vh::Register r20cs("C20dds", s16(false, false, true), s16(false, true, true), [](const vh::Case& c) { return d16(c, false); },
                   "as C16s (sequential, both classes, including DelayedDestructorSingleThread) with a throwing pre-destruction callback: the exception is swallowed, no callback runs twice, "
                   "later sweeps and the destructor still release everything exactly once");
vh::GenSpec s17(bool conc, bool th, bool faults = false) {
    vh::GenSpec g; g.sequential = !conc; g.nfibers = conc ? 3 : 1; g.max_ops = conc ? (th ? 5 : 4) : (th ? 24 : 14); g.ncodes = S_NK; g.amax = 16; g.bmax = 40;
    g.sched_len = 96; g.aux_len = 8;
    if (faults) { g.fault_max = 8; g.fault_mask = vrt::F_PRED; }
    return g;
}
vh::Register r17s("C17s", s17(false, false), s17(false, true), [](const vh::Case& c) { return run_c17(c, false); },
                  "generated sequential call sequences over names {a..d,x,y}, tags {0..2} and predicate masks, checked call by call against a name->(object,tags) map model (predicate removal: any one matching entry); "
                  "non-trivial = a removal by predicate succeeded or copyObject was called");
vh::Register r17("C17", s17(true, false), s17(true, true), [](const vh::Case& c) { return run_c17(c, true); },
                 "generated histories of 3 fibers x <=2 calls plus a final sequential observation, linearizability search against the map model; predicates contain scheduling points; non-trivial = calls overlapped");
vh::Register r20s("C20soh", s17(true, false, true), s17(true, true, true), [](const vh::Case& c) { return run_c17(c, true); },
                  "as C17 with a throwing predicate: the exception propagates, the mutex is released, and the remaining history is still linearizable (map unchanged by the throwing call)");

vh::GenSpec s18(bool conc, bool th) {
    vh::GenSpec g; g.sequential = !conc; g.nfibers = conc ? 3 : 1; g.max_ops = conc ? (th ? 5 : 4) : (th ? 24 : 14); g.ncodes = D_NK; g.amax = 12; g.bmax = 2; g.cfg_max = {2};
    g.sched_len = 96; g.aux_len = 8;
    return g;
}
vh::Outcome d18(const vh::Case& c, bool conc) { return (!c.cfg.empty() && c.cfg[0] % 2) ? run_c18<std::string>(c, conc) : run_c18<int>(c, conc); }
vh::GenSpec s18f(bool th) { vh::GenSpec g = s18(false, th); g.fault_max = 2; g.fault_mask = vrt::F_COPY; return g; }
vh::Register r18f("C18f", s18f(false), s18f(true), [](const vh::Case& c) { return run_c18<FaultyVal>(c, false); },
                  "as C18s with a value type whose copy/move construction throws at the k-th occurrence inside setDelayedValue: the throwing call has no effect, the key stays pending and is still fulfilled "
                  "by a later set, by fulfillAllPromises or at destruction; queries stay consistent; non-trivial = a set call threw");
vh::Register r18s("C18s", s18(false, false), s18(false, true), [](const vh::Case& c) { return d18(c, false); },
                  "generated sequential getFuture / setDelayedValue (copy, move) / fulfillAllPromises / finishedWithValue / queries / consume sequences for X in {int, string}, int and string keys, then destruction; "
                  "non-trivial = a key was set twice or the container was destroyed with pending futures");
vh::Register r18("C18", s18(true, false), s18(true, true), [](const vh::Case& c) { return d18(c, true); },
                 "generated concurrent setters / fulfillers / consumers / queries (3 fibers), linearizability search against the per-key life-cycle model, then destruction with pending futures; "
                 "non-trivial = calls overlapped and (a set overlapped fulfillAllPromises, or a double set, or destruction with pending futures)");

}  // namespace
