// Common prologue for every family harness: rapidcheck first (real std), then the shim, then the
// unmodified library headers compiled with std -> vstd, then the payload and the worker main.
#pragma once
#include <rapidcheck.h>
#include "../vrt/shim.hpp"
#ifdef VRT_EXTRA_MODEL_HEADER        // a family may add further models to namespace vstd before the library is included (lrcow: shared_ptr)
#include VRT_EXTRA_MODEL_HEADER
#endif
#define std vstd
#include <libguarded/handles.hpp>
#include <libguarded/guarded.hpp>
#include <libguarded/guarded_opt.hpp>
#include <libguarded/shared_guarded.hpp>
#include <libguarded/shared_guarded_opt.hpp>
#include <libguarded/ordered_guarded.hpp>
#include <libguarded/deferred_guarded.hpp>
#include <libguarded/atomic_guarded.hpp>
#include <libguarded/lr_guarded.hpp>
#include <libguarded/cow_guarded.hpp>
#include <libguarded/rcu_guarded.hpp>
#include <libguarded/rcu_list.hpp>
#include <concurrency/Barrier.hpp>
#include <concurrency/Latch.hpp>
#include <concurrency/TriggerVariable.hpp>
#include <concurrency/TripWire.hpp>
#include <concurrency/DelayedDestructor.hpp>
#include <concurrency/DelayedObjects.hpp>
#include <concurrency/SearchableObjectHolder.hpp>
#undef std
#include "../vrt/payload.hpp"
#include "../vrt/harness.hpp"

namespace lg = gmlc::libguarded;
namespace gc = gmlc::concurrency;
using vrt::Tracked;

inline void reset_case_globals() {
    vrt::tstats().reset();
    vrt::ledger().reset();
}
inline int popcount64(uint64_t x) { return __builtin_popcountll(x); }
// Half of the cases construct the wrapper under test from an rvalue payload (forwarding constructors must not use a forwarded
// argument twice), the other half from a plain value.
inline bool ctor_from_rvalue(const vh::Case& c) { unsigned h = 0; for (auto& f : c.fibers) for (auto& o : f) h = h * 31 + (unsigned)o.code + (unsigned)o.a; return (h & 1) != 0; }

// Durations / deadlines handed to the timed forms.  sel 0..3: the ordinary small positive wait; 4: zero; 5: -1 ms; 6: -2 h; 7: the most
// negative duration (durations only).  A non-positive duration or a deadline in the past is a plain try: the call must not block.
inline std::chrono::nanoseconds timed_arg(int sel, bool for_deadline) {
    switch (sel & 7) {
        case 4: return std::chrono::nanoseconds(0);
        case 5: return std::chrono::nanoseconds(-1000000);
        case 6: return std::chrono::duration_cast<std::chrono::nanoseconds>(std::chrono::hours(-2));
        case 7: return for_deadline ? std::chrono::duration_cast<std::chrono::nanoseconds>(std::chrono::minutes(-90)) : std::chrono::nanoseconds::min();
        default: return std::chrono::nanoseconds(for_deadline ? 50000000 : 3000000);
    }
}


// Runs `f` from a destructor while an exception is propagating (std::uncaught_exceptions() > 0), the way RAII clean-up code calls into
// the library during stack unwinding.  `f` must not throw.
template<class F> inline void during_unwinding(F&& f) {
    struct Guard { F& fn; ~Guard() { fn(); } };
    struct Unwinding {};
    try { Guard g{f}; throw Unwinding{}; } catch (const Unwinding&) {}
}
