// Common prologue for every family harness: rapidcheck first (real std), then the shim, then the
// unmodified library headers compiled with std -> vstd, then the payload and the worker main.
#pragma once
#include <rapidcheck.h>
#include "../vrt/shim.hpp"
#define std vstd
#include <libguarded/handles.hpp>
#include <libguarded/guarded.hpp>
#include <libguarded/guarded_opt.hpp>
#include <libguarded/shared_guarded.hpp>
#include <libguarded/shared_guarded_opt.hpp>
#include <libguarded/ordered_guarded.hpp>
#include <libguarded/deferred_guarded.hpp>
#include <libguarded/atomic_guarded.hpp>
#include <libguarded/lr_guarded.hpp>
#include <libguarded/cow_guarded.hpp>
#include <libguarded/rcu_guarded.hpp>
#include <libguarded/rcu_list.hpp>
#include <concurrency/Barrier.hpp>
#include <concurrency/Latch.hpp>
#include <concurrency/TriggerVariable.hpp>
#include <concurrency/TripWire.hpp>
#include <concurrency/DelayedDestructor.hpp>
#include <concurrency/DelayedObjects.hpp>
#include <concurrency/SearchableObjectHolder.hpp>
#undef std
#include "../vrt/payload.hpp"
#include "../vrt/harness.hpp"

namespace lg = gmlc::libguarded;
namespace gc = gmlc::concurrency;
using vrt::Tracked;

inline void reset_case_globals() {
    vrt::tstats().reset();
    vrt::ledger().reset();
}
inline int popcount64(uint64_t x) { return __builtin_popcountll(x); }
// Half of the cases construct the wrapper under test from an rvalue payload (forwarding constructors must not use a forwarded
// argument twice), the other half from a plain value.
inline bool ctor_from_rvalue(const vh::Case& c) { unsigned h = 0; for (auto& f : c.fibers) for (auto& o : f) h = h * 31 + (unsigned)o.code + (unsigned)o.a; return (h & 1) != 0; }
