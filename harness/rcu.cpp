// Family "rcu": rcu_guarded<rcu_list<T, mutex, QAlloc<T>>>.
// Targets: C05 (no reclamation under a live handle), C12 (traversal consistency, writers serialised; C12s sequential model),
// C13 (everything destroyed/freed exactly once, any T), C14r (readers never wait for writers).
#include "common.hpp"

namespace {

enum Prop { P_C05, P_C12, P_C12S, P_C13, P_C14 };

// element adapters ---------------------------------------------------------------------------------
template<class T> struct Elem;
template<> struct Elem<Tracked> {
    static Tracked make(int id) { return Tracked((uint64_t)id); }
    static int id(const Tracked& t) { return (int)t.read(); }
    static int peek(const Tracked& t) { return (int)t.peek(); }
    static constexpr const char* name = "Tracked";
};
template<> struct Elem<vrt::TrackedIL> {      // an element type that also has an initializer_list constructor (list-initialisation inside the list would pick it)
    static vrt::TrackedIL make(int id) { return vrt::TrackedIL((uint64_t)id); }
    static int id(const vrt::TrackedIL& t) { return (int)t.read(); }
    static int peek(const vrt::TrackedIL& t) { return (int)t.peek(); }
    static constexpr const char* name = "TrackedIL";
};
template<> struct Elem<std::string> {
    static std::string make(int id) { return "element-with-a-long-heap-allocated-name-" + std::to_string(id); }
    static int id(const std::string& s) { return std::atoi(s.c_str() + s.rfind('-') + 1); }
    static int peek(const std::string& s) { return id(s); }
    static constexpr const char* name = "string";
};
template<> struct Elem<int> {
    static int make(int id) { return id; }
    static int id(const int& v) { return v; }
    static int peek(const int& v) { return v; }
    static constexpr const char* name = "int";
};

struct HRec { int fiber; long reg_step; bool alive; };
// allocation faults are injected only inside push/emplace/erase calls (registration of a handle also allocates, but an exception from
// there simply propagates to the client and is not what C12f is about)
struct AllocFaultWindow {
    bool prev = false;
    AllocFaultWindow() { if (vrt::rt().cur) { prev = vrt::me().fault_window; vrt::me().fault_window = true; } }
    ~AllocFaultWindow() { if (vrt::rt().cur) vrt::me().fault_window = prev; }
    static void begin_case(const vh::Case& c) { vrt::rt().faults_need_window = c.sched.fault_k != 0 && (c.sched.fault_mask & vrt::F_ALLOC) && !(c.sched.fault_mask & vrt::F_COPY); }
};
struct ERec { const void* elem; long call_step; int value; };

struct St {
    std::vector<HRec> handles;
    std::vector<ERec> erases;
    vrt::MutexCore* wcore = nullptr;
    // C12 model
    std::map<int, long> key;                 // value -> position key (mutex order)
    std::map<int, long> seqkey;              // value -> position key (call order; exact for sequential programs)
    long smin = 0, smax = 0;
    long minkey = 0, maxkey = 0;
    std::map<int, long> push_call, push_ret, erase_call;
    std::set<int> erased_model;
    std::set<int> maybe_erased;              // erase threw (allocation fault): presence afterwards is unspecified until a clean erase
    int cur_push_value[vrt::MAXF]; bool cur_push_front[vrt::MAXF];
    const void* paused_on[vrt::MAXF];
    bool lbl_dealloc_under_handle = false, lbl_paused_on_erased = false, lbl_trav_overlap = false, lbl_records_reclaimed = false, lbl_push_threw = false, lbl_straight_to_dtor = false;
    long deallocs_nodes = 0;
    int next_value = 100;
    bool track_keys = false;
    int mutations_in_flight = 0; long mutations_done = 0;
};
St* S = nullptr;

void on_dealloc(void* p, const char* type) {
    if (!S) return;
    vrt::QLedger::Blk* b = vrt::ledger().find(p);
    uintptr_t lo = (uintptr_t)p, hi = lo + (b ? b->bytes : 0);
    bool is_node = std::strstr(type, "zombie_list_node") == nullptr;
    if (b && !b->ever_constructed) return;      // storage given back after a failed construction: never part of the list
    bool any_alive = false;
    for (auto& h : S->handles) if (h.alive) any_alive = true;
    if (!is_node) { if (any_alive) S->lbl_records_reclaimed = true; return; }
    S->deallocs_nodes++;
    if (any_alive) S->lbl_dealloc_under_handle = true;
    const ERec* er = nullptr;
    for (auto& e : S->erases) if ((uintptr_t)e.elem >= lo && (uintptr_t)e.elem < hi) er = &e;
    if (!er) {
        if (any_alive) vrt::fail("freed-unerased", "a list node that was never erased was deallocated while a handle is alive");
        return;
    }
    for (auto& h : S->handles)
        if (h.alive && h.reg_step >= 0 && h.reg_step < er->call_step)
            vrt::fail("freed-under-handle", "element " + std::to_string(er->value) + " was deallocated while a handle of f" + std::to_string(h.fiber) +
                                                " that was in use before the erase is still alive");
}

// position keys come from the order in which pushes acquire the list's write mutex (concurrent programs) or from
// program order (sequential programs).  A value without a key (no acquisition observed) is exempt from order checks.
void on_acquire(vrt::MutexCore* core, int f, bool shared) {
    if (!S || !S->track_keys || shared || core != S->wcore) return;
    int v = S->cur_push_value[f];
    if (v < 0 || S->key.count(v)) return;
    S->key[v] = S->cur_push_front[f] ? --S->minkey : ++S->maxkey;
}

template<class T, class A = vrt::QAlloc<T>, class M = vstd::mutex>
vh::Outcome run_rcu(const vh::Case& c, Prop prop) {
    using List = lg::rcu_list<T, M, A>;
    using G = lg::rcu_guarded<List>;
    using E = Elem<T>;
    constexpr bool tracked = std::is_same<T, Tracked>::value;

    reset_case_globals();
    St st; S = &st;
    for (int i = 0; i < vrt::MAXF; ++i) { st.cur_push_value[i] = -1; st.cur_push_front[i] = false; st.paused_on[i] = nullptr; }
    vrt::ledger().on_dealloc = on_dealloc;
    if (prop == P_C13) { vrt::ledger().strict_null = true; vrt::ledger().strict_lifecycle = true; }
    st.track_keys = tracked && (prop == P_C12 || prop == P_C12S);
    vrt::rt().acquire_hook = st.track_keys ? on_acquire : nullptr;
    int prefill = c.cfg.size() > 1 ? c.cfg[1] % 5 : 2;
    vh::Outcome out;
    long handles_taken = 0, erases_done = 0, pushes_done = 0, traversals = 0;

    out.res = vrt::run(c.sched, [&] {
        {
            A alloc_instance;
            std::unique_ptr<G> rlp((c.cfg.size() > 1 && (c.cfg[1] & 1)) ? new G(alloc_instance) : new G());      // both list constructors
            G& rl = *rlp;
            // the list's write mutex is the first modelled mutex constructed in this case
            st.wcore = vrt::rt().mutexes.empty() ? nullptr : vrt::rt().mutexes[0];
            auto do_push = [&](auto& h, int kind, int v) {
                int f = vrt::self();
                st.cur_push_value[f] = v; st.cur_push_front[f] = (kind % 2 == 0);
                st.push_call[v] = vrt::now_step();
                st.seqkey[v] = (kind % 2 == 0) ? --st.smin : ++st.smax;
                st.mutations_in_flight++;
                try {
                    AllocFaultWindow fw;
                    switch (kind % 4) {
                        case 0: h->push_front(E::make(v)); break;
                        case 1: h->push_back(E::make(v)); break;
                        case 2: { T lv = E::make(v); h->emplace_front(lv); break; }      // lvalue: the node's element is copy-constructed inside the list
                        default: { T lv = E::make(v); h->emplace_back(lv); break; }
                    }
                } catch (const vrt::InjectedFault&) {
                    // the element's copy/move constructor threw: the list must be unchanged and nothing half-built may be destroyed (strong guarantee)
                    if (!c.sched.fault_k) vrt::fail("escaped-fault", "fault without a plan");
                    st.mutations_in_flight--;
                    st.cur_push_value[f] = -1;
                    st.push_call.erase(v); st.seqkey.erase(v); st.key.erase(v);
                    if (vrt::me().held != 0) vrt::fail("lock-leaked-on-throw", "the list's write mutex is still held after element construction threw");
                    st.lbl_push_threw = true;
                    return;
                }
                st.mutations_in_flight--; st.mutations_done++;
                st.push_ret[v] = vrt::now_step();
                st.cur_push_value[f] = -1;
                pushes_done++;
            };
            auto reg = [&](int fiber) { st.handles.push_back(HRec{fiber, -1, true}); handles_taken++; return st.handles.size() - 1; };
            auto check_traversal = [&](const std::vector<int>& seen, long begin_call, long end_step, long mut0) {
                traversals++;
                if (st.mutations_in_flight > 0 || st.mutations_done != mut0) st.lbl_trav_overlap = true;
                if (!st.track_keys) return;
                long last = 0; bool first = true;
                std::set<int> seenset;
                for (int v : seen) {
                    if (!st.push_call.count(v)) vrt::fail("invented-element", "traversal visited value " + std::to_string(v) + " that was never inserted");
                    if (seenset.count(v)) vrt::fail("order", "traversal visited value " + std::to_string(v) + " twice");
                    seenset.insert(v);
                    auto k = st.key.find(v);
                    if (k == st.key.end()) continue;       // no key: exempt from order checks
                    if (!first && k->second <= last) vrt::fail("order", "traversal visited value " + std::to_string(v) + " out of list order or twice");
                    last = k->second; first = false;
                }
                for (auto& pr : st.push_ret) {
                    int v = pr.first;
                    if (pr.second < begin_call && pr.second >= 0) {
                        auto ec = st.erase_call.find(v);
                        bool erased_before_end = ec != st.erase_call.end() && ec->second <= end_step;
                        if (!erased_before_end && !seenset.count(v))
                            vrt::fail("skipped-stable", "traversal skipped value " + std::to_string(v) + " which was in the list for the whole traversal");
                    }
                }
            };
            // prefill (never subject to the fault plan)
            {
                vrt::rt().faults_off = true;
                auto h = rl.lock_write();
                for (int i = 0; i < prefill; ++i) do_push(h, 1, st.next_value++);
            }
            vrt::rt().faults_off = false;
            AllocFaultWindow::begin_case(c);
            for (size_t i = 0; i < c.fibers.size(); ++i) {
                if (c.fibers[i].empty()) continue;
                int vbase = 1000 * ((int)i + 1);
                vrt::spawn([&, i, vbase] {
                    const auto& ops = c.fibers[i];
                    int me = vrt::self();
                    int nextv = vbase;
                    for (size_t k = 0; k < ops.size(); ++k) {
                        const vh::Op& op = ops[k];
                        int code = op.code % 12;
                        if (prop == P_C12S) { static const int seqmap[6] = {3, 4, 5, 6, 2, 1}; code = seqmap[op.code % 6]; }
                        if (code == 0 || code == 8 || code == 9) {            // reader walking with pauses
                            size_t hi = reg(me);
                            {
                                auto h = rl.lock_read();
                                // both public routes to the list: operator-> and operator* (implemented separately)
                                const auto& lst = (op.b & 4) ? *h : *h.operator->();
                                auto it = lst.begin();
                                st.handles[hi].reg_step = vrt::now_step();
                                int walked = 0;
                                while (it != lst.end() && walked <= op.a) {
                                    vrt::check_live_addr(&*it, "iterator dereference");
                                    st.paused_on[me] = &*it;
                                    (void)E::id(*it);
                                    for (int s = 0; s < (op.b & 3) * (code == 8 ? 2 : 1); ++s) vrt::step();
                                    vrt::check_live_addr(&*it, "iterator dereference after pause");
                                    (void)E::id(*it);
                                    st.paused_on[me] = nullptr;
                                    ++it; walked++;
                                }
                                st.handles[hi].alive = false;      // the destructor call below is the release
                            }
                        } else if (code == 1 || code == 10) {                  // full traversal
                            size_t hi = reg(me);
                            std::vector<int> seen;
                            long begin_call = vrt::now_step(), mut0 = st.mutations_done;
                            if (op.a & 1) {
                                auto h = rl.lock_write();
                                auto it = h->begin(); st.handles[hi].reg_step = vrt::now_step();
                                for (; it != h->end(); ++it) { vrt::check_live_addr(&*it, "iterator dereference"); seen.push_back(E::id(*it)); if (op.b & 1) vrt::step(); }
                                long end_step = vrt::now_step();
                                check_traversal(seen, begin_call, end_step, mut0);
                                st.handles[hi].alive = false;
                            } else {
                                auto h = rl.lock_read();
                                const auto& lst = (op.b & 4) ? *h : *h.operator->();
                                auto it = lst.begin(); st.handles[hi].reg_step = vrt::now_step();
                                if (op.b & 2) { while (lst.end() != it) { auto cur = it++; vrt::check_live_addr(&*cur, "iterator dereference"); seen.push_back(E::id(*cur)); if (op.b & 1) vrt::step(); } }   // post-increment, reversed comparison
                                else for (; it != lst.end(); ++it) { vrt::check_live_addr(&*it, "iterator dereference"); seen.push_back(E::id(*it)); if (op.b & 1) vrt::step(); }
                                long end_step = vrt::now_step();
                                check_traversal(seen, begin_call, end_step, mut0);
                                st.handles[hi].alive = false;
                            }
                        } else if (code == 2 || code == 11) {                  // erase the (a % 5)-th element
                            size_t hi = reg(me);
                            {
                                auto h = rl.lock_write();
                                auto it = (op.b & 4) ? (*h).begin() : h->begin(); st.handles[hi].reg_step = vrt::now_step();
                                for (int s = 0; s < op.a % 5 && it != h->end(); ++s) ++it;
                                if (it != h->end()) {
                                    vrt::check_live_addr(&*it, "iterator dereference");
                                    int v = E::peek(*it);
                                    const void* ea = &*it;
                                    for (int f = 0; f < vrt::MAXF; ++f) if (f != me && st.paused_on[f] == ea) st.lbl_paused_on_erased = true;
                                    bool first_erase = !st.erase_call.count(v);
                                    if (first_erase) { st.erase_call[v] = vrt::now_step(); st.erases.push_back(ERec{ea, vrt::now_step(), v}); }
                                    st.mutations_in_flight++;
                                    decltype(h->erase(it)) nx;
                                    try { AllocFaultWindow fw; nx = h->erase(it); }
                                    catch (const vrt::InjectedFault&) {
                                        // allocation failure inside erase: the element may or may not have been removed, but a later erase that
                                        // returns normally must leave it absent, and the write mutex must be free again
                                        if (!c.sched.fault_k) vrt::fail("escaped-fault", "fault without a plan");
                                        st.mutations_in_flight--; st.mutations_done++;
                                        st.maybe_erased.insert(v);
                                        if (vrt::me().held != 0) vrt::fail("lock-leaked-on-throw", "the list's write mutex is still held after erase threw");
                                        st.handles[hi].alive = false;
                                        continue;
                                    }
                                    st.mutations_in_flight--; st.mutations_done++;
                                    erases_done++;
                                    st.erased_model.insert(v);
                                    if ((op.b & 1) && nx != h->end()) { vrt::check_live_addr(&*nx, "iterator returned by erase"); (void)E::id(*nx); }
                                    if (op.b & 2) { vrt::check_live_addr(&*it, "erased element under the erasing handle"); (void)E::id(*it); ++it; }   // the erased element stays reachable for this handle
                                }
                                st.handles[hi].alive = false;
                            }
                        } else if (code >= 3 && code <= 6) {                    // push / emplace
                            size_t hi = reg(me);
                            {
                                auto h = rl.lock_write();
                                (void)h->begin(); st.handles[hi].reg_step = vrt::now_step();
                                do_push(h, code - 3, nextv++);
                                st.handles[hi].alive = false;
                            }
                        } else {                                                // 7: short-lived handle (drives reclamation)
                            size_t hi = reg(me);
                            {
                                auto h = rl.lock_read();
                                (void)(*h).begin(); st.handles[hi].reg_step = vrt::now_step();       // registration through operator*
                                st.handles[hi].alive = false;
                            }
                        }
                        if (prop == P_C12S && st.track_keys) {
                            // sequential model: exact contents after every command
                            std::vector<std::pair<long, int>> exp;
                            for (auto& kv : st.seqkey) if (!st.erased_model.count(kv.first)) exp.push_back({kv.second, kv.first});
                            std::sort(exp.begin(), exp.end());
                            auto h = rl.lock_read();
                            size_t n = 0;
                            for (auto it = h->begin(); it != h->end(); ++it, ++n) {
                                if (n >= exp.size() || E::id(*it) != exp[n].second) vrt::fail("model-mismatch", "list contents differ from the sequential reference list");
                            }
                            if (n != exp.size()) vrt::fail("model-mismatch", "list is shorter than the sequential reference list");
                        }
                    }
                });
            }
            vrt::join_all();
            vrt::disable_faults();
            // final contents == sequential model (mutex order).  A final handle's release reclaims every retired node, so for C13 half of
            // the cases go straight to list destruction: whatever is still retired then must be destroyed and freed by ~rcu_list.
            size_t total_ops = 0; for (auto& f : c.fibers) total_ops += f.size();
            if (prop == P_C13 && (total_ops & 1)) st.lbl_straight_to_dtor = true;
            else {
                std::vector<int> fin;
                {
                    auto h = rl.lock_read();
                    for (auto it = h->begin(); it != h->end(); ++it) { vrt::check_live_addr(&*it, "iterator dereference"); fin.push_back(E::id(*it)); }
                }
                std::set<int> expect;
                for (auto& pc : st.push_ret) if (!st.erased_model.count(pc.first)) expect.insert(pc.first);
                std::set<int> got(fin.begin(), fin.end());
                if (got.size() != fin.size()) vrt::fail("final-contents", "final list contains a value twice");
                for (int v : st.maybe_erased) if (!st.erased_model.count(v)) { expect.erase(v); got.erase(v); }      // unspecified
                if (got != expect) vrt::fail("final-contents", "final list contents differ from the sequential model (inserted minus erased)");
                if (st.track_keys) {
                    long last = 0; bool first = true;
                    for (int v : fin) { if (!st.key.count(v)) continue; long k = st.key[v]; if (!first && k <= last) vrt::fail("final-order", "final list order differs from the sequential model"); last = k; first = false; }
                }
            }
            rlp.reset();
        }   // ~rcu_guarded -> ~rcu_list
        // C13: everything the list allocated is gone, exactly once
        vrt::QLedger& L = vrt::ledger();
        if (prop == P_C13 || prop == P_C05) {
            if (L.live_blocks() != 0) vrt::fail("leak", std::to_string(L.live_blocks()) + " allocator block(s) still allocated after the list was destroyed");
            if (L.live_objects() != 0) vrt::fail("leak", "objects never destroyed after the list was destroyed");
        }
        if (prop == P_C13 && tracked) {
            // every Tracked constructed during the case was destroyed (temporaries included)
            if (vrt::tstats().ctor != vrt::tstats().dtor) vrt::fail("instance-count", "payload constructions and destructions differ after the list was destroyed");
        }
    });
    S = nullptr;
    vrt::rt().acquire_hook = nullptr;
    vrt::QLedger& L = vrt::ledger();
    out.labels.push_back(std::string("T=") + E::name);
    if (st.lbl_dealloc_under_handle) out.labels.push_back("node-freed-under-live-handle");
    if (st.lbl_paused_on_erased) out.labels.push_back("paused-on-erased");
    if (st.lbl_trav_overlap) out.labels.push_back("traversal-overlapped-mutation");
    if (st.lbl_records_reclaimed) out.labels.push_back("records-freed-under-live-handle");
    if (st.lbl_straight_to_dtor) out.labels.push_back("destroyed-without-final-handle");
    if (L.null_destroy || L.null_dealloc) out.labels.push_back("null-destroy-seen");
    if (erases_done) out.labels.push_back("erased");
    if (st.lbl_push_threw) out.labels.push_back("element-construction-threw");
    switch (prop) {
        case P_C05: out.nontrivial = st.lbl_dealloc_under_handle || st.lbl_paused_on_erased; break;
        case P_C12: out.nontrivial = st.lbl_trav_overlap; break;
        case P_C12S: out.nontrivial = erases_done > 0 && pushes_done > prefill; break;
        case P_C13: out.nontrivial = handles_taken >= 2 && (erases_done > 0 || pushes_done > prefill); break;
        case P_C14: break;
    }
    out.sig = (uint64_t)prefill;
    return out;
}

template<Prop P>
vh::Outcome run_tracked(const vh::Case& c) {
    // cfg[2] selects the list's mutex type (a template parameter of rcu_list)
    if (c.cfg.size() > 2 && c.cfg[2] % 2 == 1) { vh::Outcome o = run_rcu<Tracked, vrt::QAlloc<Tracked>, vstd::timed_mutex>(c, P); o.labels.push_back("M=timed_mutex"); return o; }
    if (P == P_C12 && !c.cfg.empty() && c.cfg[0] % 4 == 3) return run_rcu<vrt::TrackedIL>(c, P);
    return run_rcu<Tracked>(c, P);
}
// ---- C12r: rcu_list with a recursive mutex (documented as a useful mutex type) and an element whose constructor appends to the same
// list while the outer emplace holds the write lock.  Sequential programs, reference std::list.
struct NestList;
struct NestArg { void* list; int v; int nested; };
struct NestElem {
    Tracked t;
    explicit NestElem(uint64_t v) : t(v) {}
    explicit NestElem(const NestArg& a);
    uint64_t read() const { return t.read(); }
};
using RList = lg::rcu_list<NestElem, vstd::recursive_mutex, vrt::QAlloc<NestElem>>;
NestElem::NestElem(const NestArg& a) : t((uint64_t)a.v) {
    RList* l = static_cast<RList*>(a.list);
    if (a.nested == 9) { auto it = l->begin(); if (it != l->end()) l->erase(it); return; }      // the constructor erases the current first element instead
    for (int k = 0; k < a.nested; ++k) { if (k & 1) l->emplace_front((uint64_t)(a.v * 10 + k + 1)); else l->emplace_back((uint64_t)(a.v * 10 + k + 1)); }
}
vh::Outcome run_c12r(const vh::Case& c) {
    reset_case_globals();
    vh::Outcome out;
    bool nested_any = false;
    vrt::ledger().strict_null = true; vrt::ledger().strict_lifecycle = true;
    out.res = vrt::run(c.sched, [&] {
      {
        lg::rcu_guarded<RList> rl;
        std::list<int> ref;
        int next = 1;
        const auto& ops = c.fibers.empty() ? std::vector<vh::Op>() : c.fibers[0];
        for (auto& op : ops) {
            int v = next++;
            auto h = rl.lock_write();
            RList* raw = &*h;
            switch (op.code % 6) {
                case 0: h->push_back(NestElem((uint64_t)v)); ref.push_back(v); break;
                case 1: h->push_front(NestElem((uint64_t)v)); ref.push_front(v); break;
                case 2: case 3: {      // emplace_back whose element constructor appends `nested` more elements first
                    int n = op.a % 3; if (n) nested_any = true;
                    for (int k = 0; k < n; ++k) { if (k & 1) ref.push_front(v * 10 + k + 1); else ref.push_back(v * 10 + k + 1); }
                    h->emplace_back(NestArg{raw, v, n}); ref.push_back(v); break;
                }
                case 4: if (op.b & 1) {      // emplace_front whose element constructor erases the element that is the head at that moment
                    nested_any = true;
                    if (!ref.empty()) ref.pop_front();
                    h->emplace_front(NestArg{raw, v, 9}); ref.push_front(v); break;
                } else {
                    int n = op.a % 3; if (n) nested_any = true;
                    for (int k = 0; k < n; ++k) { if (k & 1) ref.push_front(v * 10 + k + 1); else ref.push_back(v * 10 + k + 1); }
                    h->emplace_front(NestArg{raw, v, n}); ref.push_front(v); break;
                }
                default: { auto it = h->begin(); int k = op.a % 4; auto rit = ref.begin(); while (k-- > 0 && it != h->end()) { ++it; ++rit; } if (it != h->end()) { h->erase(it); ref.erase(rit); } break; }
            }
            std::vector<int> got; for (auto it = h->begin(); it != h->end(); ++it) got.push_back((int)it->read());
            if (got != std::vector<int>(ref.begin(), ref.end())) {
                // C13's view of the same defect: an element that is no longer reachable from the list is never destroyed or freed
                if (got.size() < ref.size()) vrt::fail("leak", "an element inserted by a re-entrant element constructor (recursive mutex) is no longer reachable from the list: it can never be destroyed or deallocated");
                vrt::fail("model-mismatch", "list contents differ from the reference list after an operation with a re-entrant element constructor under a recursive mutex");
            }
        }
      }
        // everything constructed was destroyed and every block returned exactly once, no later than list destruction
        auto& L = vrt::ledger();
        if (L.live_blocks() != 0) vrt::fail("leak", std::to_string(L.live_blocks()) + " allocator block(s) still allocated after the list was destroyed");
        if (L.live_objects() != 0) vrt::fail("leak", "objects never destroyed after the list was destroyed");
    });
    if (nested_any) out.labels.push_back("nested-append-from-constructor");
    out.nontrivial = nested_any;
    return out;
}
vh::GenSpec spec12r(bool th) { vh::GenSpec g; g.sequential = true; g.nfibers = 1; g.max_ops = th ? 16 : 10; g.ncodes = 6; g.amax = 6; g.bmax = 2; g.aux_len = 1; return g; }
vh::Register r12r("C12r", spec12r(false), spec12r(true), run_c12r,
                  "sequential programs on rcu_list<E, recursive_mutex> where E's constructor re-enters emplace_front/emplace_back of the same list while the outer emplace holds the write lock; "
                  "contents compared with a reference list after every operation; non-trivial = at least one nested append");


// ---- C13b: long histories.  One or two long-lived readers stay registered while a writer goes through a burst of K short write handles
// (each pushes one element and erases one), with short-lived read handles opened and released in between; then everything is released
// and the list destroyed.  Reclamation has to cope with dozens of retire / registration records queued behind an old reader.
vh::Outcome run_c13_burst(const vh::Case& c) {
    using List = lg::rcu_list<Tracked, vstd::mutex, vrt::QAlloc<Tracked>>;
    using G = lg::rcu_guarded<List>;
    reset_case_globals();
    vrt::ledger().strict_null = true; vrt::ledger().strict_lifecycle = true;
    vh::Outcome out;
    static const int kBurst[6] = {5, 9, 17, 18, 30, 60};
    int K = kBurst[c.cfg.empty() ? 0 : c.cfg[0] % 6];
    int nreaders = 1 + (c.cfg.size() > 1 ? c.cfg[1] % 2 : 0);
    int erase_every = 1 + (c.cfg.size() > 2 ? c.cfg[2] % 3 : 0);        // the writer erases in every / every 2nd / every 3rd handle
    int progress = 0, pushed = 0, erased = 0; bool reader_outlived = false;
    out.res = vrt::run(c.sched, [&] {
        {
            G rl;
            { auto h = rl.lock_write(); for (int i = 0; i < 3; ++i) { h->push_back(Tracked((uint64_t)(900 + i))); pushed++; } }
            for (int r = 0; r < nreaders; ++r) {
                const auto& ops = (size_t)r < c.fibers.size() ? c.fibers[(size_t)r] : std::vector<vh::Op>();
                int release_at = std::min(K, ops.empty() ? K : (ops[0].a * K) / 8 + (ops[0].b & 1));      // the writer's progress at which this reader lets go
                vrt::spawn([&, release_at] {
                    auto h = rl.lock_read();
                    auto it = h->begin();                                   // registered from here on
                    if (it != h->end()) { vrt::check_live_addr(&*it, "iterator dereference"); (void)it->read(); }
                    int guard = 0;
                    while (progress < release_at && ++guard < 200000) vrt::yield_now();
                    if (progress >= K / 2) reader_outlived = true;
                    for (; it != h->end(); ++it) { vrt::check_live_addr(&*it, "iterator dereference under an old read handle"); (void)it->read(); }
                });
            }
            vrt::spawn([&] {
                for (int q = 0; q < K; ++q) {
                    { auto h = rl.lock_write(); h->push_back(Tracked((uint64_t)(1000 + q))); pushed++; if (q % erase_every == 0) { auto it = h->begin(); if (it != h->end()) { h->erase(it); erased++; } } }
                    progress = q + 1;
                    if (q % 3 == 2) { auto h = rl.lock_read(); (void)h->begin(); }       // a short-lived reader in between
                }
            });
            vrt::spawn([&] {
                const auto& ops = c.fibers.size() > 2 ? c.fibers[2] : std::vector<vh::Op>();
                for (auto& op : ops) { for (int s2 = 0; s2 < (op.b & 3); ++s2) vrt::yield_now(); auto h = rl.lock_read(); auto it = h->begin(); if ((op.a & 1) && it != h->end()) (void)it->read(); }
            });
            vrt::join_all();
            { auto h = rl.lock_read(); int n = 0; for (auto it = h->begin(); it != h->end(); ++it) n++; if (n != pushed - erased) vrt::fail("final-contents", "the list holds " + std::to_string(n) + " elements, inserted minus erased is " + std::to_string(pushed - erased)); }
        }
        auto& L = vrt::ledger();
        if (L.live_blocks() != 0) vrt::fail("leak", std::to_string(L.live_blocks()) + " allocator block(s) still allocated after the list was destroyed (burst of " + std::to_string(K) + " write handles behind an old reader)");
        if (L.live_objects() != 0) vrt::fail("leak", "objects never destroyed after the list was destroyed");
        if (vrt::tstats().ctor != vrt::tstats().dtor) vrt::fail("instance-count", "payload constructions and destructions differ after the list was destroyed");
    });
    out.labels.push_back("burst=" + std::to_string(K));
    if (reader_outlived) out.labels.push_back("old-reader-outlived-half-the-burst");
    out.nontrivial = reader_outlived && erased > 0;
    return out;
}
vh::GenSpec spec13b(bool th) { vh::GenSpec g; g.nfibers = 3; g.max_ops = th ? 5 : 3; g.ncodes = 1; g.amax = 9; g.bmax = 4; g.cfg_max = {6, 2, 3}; g.sched_len = th ? 160 : 96; g.aux_len = 8; g.step_budget = 60000; return g; }
vh::Register r13b("C13b", spec13b(false), spec13b(true), run_c13_burst,
                  "one or two long-lived registered readers x a writer going through 5 / 9 / 17 / 18 / 30 / 60 short write handles (push + erase) with short read handles in between, generated release points "
                  "and schedules; strict allocator ledger after list destruction; non-trivial = an old reader stayed registered for at least half of the burst and something was erased");

vh::Outcome dispatch13(const vh::Case& c) {
    int t = c.cfg.empty() ? 0 : c.cfg[0] % 4;
    if (t == 3) { vh::Outcome o = run_rcu<Tracked, vrt::QAllocS<Tracked>>(c, P_C13); o.labels.push_back("stateful-allocator"); return o; }
    if (t == 0) return run_rcu<Tracked>(c, P_C13);
    if (t == 1) return run_rcu<std::string>(c, P_C13);
    return run_rcu<int>(c, P_C13);
}

vh::GenSpec spec(Prop p, bool thorough) {
    vh::GenSpec g;
    g.nfibers = p == P_C12S ? 1 : 4; g.max_ops = p == P_C12S ? (thorough ? 24 : 12) : (thorough ? 6 : 4);
    g.ncodes = 12; g.amax = 6; g.bmax = 8;
    g.cfg_max = {4, 5, 2};
    g.sched_len = thorough ? 224 : 160; g.aux_len = 16;
    g.sequential = p == P_C12S;
    return g;
}

vh::Register r5("C05", spec(P_C05, false), spec(P_C05, true), run_tracked<P_C05>,
                "generated rcu_list clients (pausing readers, erasing/pushing writers, short-lived handles) x generated schedule with a quarantining allocator; "
                "non-trivial = a node was deallocated while a handle was alive, or a reader was paused on an element at the moment it was erased");
vh::Register r12("C12", spec(P_C12, false), spec(P_C12, true), run_tracked<P_C12>,
                 "generated traversing readers x pushing/erasing writers x generated schedule; oracle = position-key monotonicity, stable elements visited, final contents vs model; "
                 "non-trivial = a full traversal overlapped at least one mutation");
vh::GenSpec spec12f(bool th) { vh::GenSpec g = spec(P_C12, th); g.fault_max = 10; g.fault_mask = vrt::F_ALLOC; return g; }
vh::Register r12f("C12f", spec12f(false), spec12f(true), [](const vh::Case& c) { return (!c.cfg.empty() && c.cfg[0] & 1) ? run_rcu<Tracked, vrt::QAllocS<Tracked>>(c, P_C12) : run_rcu<Tracked>(c, P_C12); },
                  "as C12 with a fault plan over the list's allocations (node in push/emplace, retire record in erase): a throwing push leaves the list unchanged, after a throwing erase the element's presence "
                  "is unspecified but a later erase that returns normally removes it, the write mutex is released; final contents still match a sequential execution");
vh::GenSpec spec05f(bool th) { vh::GenSpec g = spec(P_C05, th); g.fault_max = 10; g.fault_mask = vrt::F_ALLOC; return g; }
vh::Register r05f("C05f", spec05f(false), spec05f(true), [](const vh::Case& c) { return (!c.cfg.empty() && c.cfg[0] & 1) ? run_rcu<Tracked, vrt::QAllocS<Tracked>>(c, P_C12) : run_rcu<Tracked>(c, P_C12); },
                  "as C05 with allocation failures injected inside push/emplace/erase: a failing erase must not free the element under handles that predate it (quarantine + direct rule stay active; "
                  "leaks are not judged here)");
vh::Register r12s("C12s", spec(P_C12S, false), spec(P_C12S, true), [](const vh::Case& c) { return run_rcu<Tracked>(c, P_C12S); },
                  "generated sequential command sequences (push_front/back, emplace_front/back, erase k-th, traversal) compared with a reference list after every command; "
                  "non-trivial = at least one erase and one insertion");
vh::GenSpec spec13f(bool th) { vh::GenSpec g = spec(P_C13, th); g.fault_max = 8; g.fault_mask = vrt::F_COPY; g.cfg_max = {1, 5}; return g; }
vh::Register r13f("C13f", spec13f(false), spec13f(true), [](const vh::Case& c) { return run_rcu<Tracked>(c, P_C13); },
                  "as C13 (T = Tracked) with a fault plan: the k-th element copy/move construction throws inside push_*/emplace_*; nothing that was never constructed may be destroyed, "
                  "the write mutex is released, the list is unchanged; non-trivial as C13");
vh::Register r13("C13", spec(P_C13, false), spec(P_C13, true), dispatch13,
                 "generated handle/push/erase programs for T in {Tracked, std::string, int} with a strict allocator ledger (null/double/missing destroy or deallocate, leaks at list destruction); "
                 "non-trivial = >=2 handles and at least one push or erase beyond the prefill");

}  // namespace
