// Family "prims": Barrier (C09), Latch (C10), TriggerVariable (C11) on modelled mutex / condition_variable / atomic.
#include "common.hpp"

namespace {

// ================================================================================================ C09 Barrier
// populations for the "for any number of participants / waiters" clauses: on and around the wrap-around points of 7- and 8-bit counters
static const int kCrowd[8] = {3, 126, 127, 128, 129, 255, 256, 257};

vh::Outcome run_barrier(const vh::Case& c, bool crowd = false) {
    reset_case_globals();
    vh::Outcome out;
    int N = 1 + (c.cfg.size() > 0 ? c.cfg[0] % 5 : 1);          // participants 1..5 (1: every wait returns at once)
    if (crowd) N = kCrowd[c.cfg.size() > 0 ? c.cfg[0] % 8 : 0];
    int G = 1 + (c.cfg.size() > 1 ? c.cfg[1] % 4 : 0);          // generations 1..4
    std::vector<int> drop((size_t)N, 1000);                      // generation at which the participant drops (its last call)
    std::vector<std::vector<int>> pause((size_t)N);
    for (int p = 0; p < N; ++p) {
        const auto& ops = (size_t)p < c.fibers.size() ? c.fibers[(size_t)p] : std::vector<vh::Op>();
        if (!ops.empty()) { int d = ops[0].a % (G + 3); if (d < G) drop[(size_t)p] = d; }
        for (int g = 0; g < G; ++g) pause[(size_t)p].push_back((size_t)g < ops.size() ? ops[(size_t)g].b % 4 : 0);
    }
    std::vector<int> expected((size_t)G, 0);
    for (int g = 0; g < G; ++g) for (int p = 0; p < N; ++p) if (drop[(size_t)p] >= g) expected[(size_t)g]++;
    std::vector<int> arrivals((size_t)G, 0), left((size_t)G, 0);
    bool lap = false, dropped = false;
    out.res = vrt::run(c.sched, [&] {
        gc::Barrier bar((size_t)N);
        // publication: what a participant wrote before its g-th arrival is visible to everyone released from generation g
        std::vector<std::unique_ptr<Tracked>> datum;
        for (int i = 0; i < N * G; ++i) datum.emplace_back(new Tracked(uint64_t(0)));
        for (int p = 0; p < N; ++p) {
            vrt::spawn([&, p] {
                for (int g = 0; g < G && g <= drop[(size_t)p]; ++g) {
                    for (int s = 0; s < pause[(size_t)p][(size_t)g]; ++s) vrt::step();
                    datum[(size_t)(p * G + g)]->set(uint64_t(100 + g));
                    arrivals[(size_t)g]++;
                    if (g > 0 && left[(size_t)g - 1] < expected[(size_t)g - 1]) lap = true;   // entered g while someone is still inside g-1
                    if (g == drop[(size_t)p]) { dropped = true; bar.wait_and_drop(); } else bar.wait();
                    if (arrivals[(size_t)g] != expected[(size_t)g])
                        vrt::fail("early-release", "participant " + std::to_string(p) + " returned from generation " + std::to_string(g) + " after " +
                                                       std::to_string(arrivals[(size_t)g]) + " of " + std::to_string(expected[(size_t)g]) + " arrivals");
                    left[(size_t)g]++;
                    for (int q = 0; q < (crowd ? std::min(N, 3) : N); ++q) if (drop[(size_t)q] >= g && datum[(size_t)(q * G + g)]->read() != uint64_t(100 + g))
                        vrt::fail("publication", "data written before arriving at the barrier is not visible after the barrier released");
                }
            });
        }
        vrt::join_all();
        for (int g = 0; g < G; ++g)
            if (left[(size_t)g] != expected[(size_t)g]) vrt::fail("not-released", "not every participant of generation " + std::to_string(g) + " was released");
    });
    if (lap) out.labels.push_back("lap");
    if (dropped) out.labels.push_back("drop");
    if (out.res.spurious_wakes) out.labels.push_back("spurious-wake");
    out.labels.push_back("N=" + std::to_string(N));
    out.nontrivial = (G >= 2 && lap) || dropped;
    return out;
}

// ================================================================================================ C10 Latch
vh::Outcome run_latch(const vh::Case& c) {
    reset_case_globals();
    vh::Outcome out;
    int count = c.cfg.size() > 0 ? c.cfg[0] % 5 : 1;            // 0..4 (0: the latch is open from the start)
    // arrivals that are certain to happen without anybody being released first: those before a fiber's first wait
    int free_arrivals = 0;
    for (auto& f : c.fibers) for (auto& op : f) { if (op.code % 3 == 1) break; free_arrivals++; if (op.code % 3 == 2) break; }
    int extra = std::max(0, count - free_arrivals) + (c.cfg.size() > 1 ? c.cfg[1] % 2 : 0);   // main fiber supplies the rest (sometimes one more)
    int started = 0, finished = 0;
    int waits_in_flight = 0, arrives_in_flight = 0;
    bool overlap = false, waited = false;
    int total_arrivals = extra; for (auto& f : c.fibers) for (auto& op : f) if (op.code % 3 != 1) total_arrivals++;
    bool exact = total_arrivals == count;     // then every arrival precedes every return from wait(): its data must be visible
    out.res = vrt::run(c.sched, [&] {
        gc::Latch latch(count);
        std::vector<std::unique_ptr<Tracked>> datum;
        for (int i = 0; i < total_arrivals + 1; ++i) datum.emplace_back(new Tracked(uint64_t(0)));
        int next_pub = 0;
        auto publish = [&] { int idx = next_pub++; datum[(size_t)idx]->set(uint64_t(7)); };   // index taken before the (preemptible) write
        auto consume = [&] { if (exact) for (int i = 0; i < count; ++i) if (datum[(size_t)i]->read() != uint64_t(7)) vrt::fail("publication", "data written before arrive() is not visible after wait() returned"); };
        auto do_arrive = [&] {
            publish();
            started++; arrives_in_flight++;
            if (waits_in_flight > 0) overlap = true;
            latch.arrive();
            arrives_in_flight--; finished++;
        };
        auto do_wait = [&] {
            waits_in_flight++;
            if (arrives_in_flight > 0) overlap = true;
            long b0 = vrt::me().blocking_ops;
            latch.wait();
            if (vrt::me().blocking_ops != b0) waited = true;
            waits_in_flight--;
            if (started < count) vrt::fail("early-open", "wait() returned after only " + std::to_string(started) + " of " + std::to_string(count) + " arrivals had started");
            consume();
        };
        for (size_t i = 0; i < c.fibers.size(); ++i) {
            if (c.fibers[i].empty()) continue;
            vrt::spawn([&, i] {
                for (auto& op : c.fibers[i]) {
                    for (int s = 0; s < op.b % 3; ++s) vrt::step();
                    switch (op.code % 3) {
                        case 0: do_arrive(); break;
                        case 1: do_wait(); break;
                        default: {
                            publish();
                            started++; arrives_in_flight++; waits_in_flight++;
                            latch.arrive_and_wait();
                            arrives_in_flight--; waits_in_flight--; finished++;
                            if (started < count) vrt::fail("early-open", "arrive_and_wait() returned before the count was reached");
                            consume();
                        }
                    }
                }
            });
        }
        for (int k = 0; k < extra; ++k) { vrt::step(); do_arrive(); }
        vrt::join_all();
        do_wait();          // a future waiter returns at once
    });
    if (overlap) out.labels.push_back("wait-overlapped-arrive");
    if (waited) out.labels.push_back("waiter-blocked");
    if (out.res.spurious_wakes) out.labels.push_back("spurious-wake");
    out.nontrivial = overlap && waited;
    return out;
}

// ================================================================================================ C11 TriggerVariable
struct TvModel { bool A = false, T = false; };
enum CtlOp { K_ACTIVATE, K_TRIGGER, K_RESET };

vh::Outcome run_trigger(const vh::Case& c) {
    reset_case_globals();
    vh::Outcome out;
    bool init_active = c.cfg.size() > 0 && c.cfg[0] % 3 == 2;
    bool untimed_wait_ok_override = false;
    // controller = fiber slot 0; its ops: code%3
    std::vector<int> ctl;
    if (!c.fibers.empty()) for (auto& op : c.fibers[0]) ctl.push_back(op.code % 3);
    TvModel fin; fin.A = init_active;
    auto apply = [](TvModel& m, int k) -> bool {
        switch (k) {
            case K_ACTIVATE: if (m.A) return false; m.T = false; m.A = true; return true;
            case K_TRIGGER: if (!m.A) return false; m.T = true; return true;
            default: if (m.A) { m.T = true; m.A = false; } return true;
        }
    };
    for (int k : ctl) apply(fin, k);
    bool second_triggerer = c.cfg.size() > 1 && c.cfg[1] % 3 == 1 && c.fibers.size() > 1 && !c.fibers[1].empty();
    // mode 2: a second thread that only calls reset().  Racing controllers make per-call results order-dependent, so in this mode only
    // two things are judged: every fiber terminates (all waits are timed), and the final (active, triggered) state is one that SOME
    // sequential order of the two threads' calls produces.
    bool second_resetter = c.cfg.size() > 1 && c.cfg[1] % 3 == 2 && c.fibers.size() > 1 && !c.fibers[1].empty();
    std::set<int> reach2;                       // resetter mode: final states of all sequential interleavings
    bool all_finals_inactive = false;
    if (second_resetter) {
        int nres = (int)c.fibers[1].size();
        std::function<void(size_t, int, TvModel)> go = [&](size_t i, int r, TvModel m) {
            if (i == ctl.size() && r == nres) { reach2.insert((m.A ? 2 : 0) | (m.T ? 1 : 0)); return; }
            if (i < ctl.size()) { TvModel m2 = m; apply(m2, ctl[i]); go(i + 1, r, m2); }
            if (r < nres) { TvModel m2 = m; apply(m2, K_RESET); go(i, r + 1, m2); }
        };
        TvModel m0; m0.A = init_active; go(0, 0, m0);
        all_finals_inactive = true; for (int st : reach2) if (st & 2) all_finals_inactive = false;
        untimed_wait_ok_override = !all_finals_inactive;      // untimed wait() only if the variable certainly ends inactive (then every waiter must be released)
    }
    bool untimed_wait_ok = (!fin.A || fin.T) && !untimed_wait_ok_override;
    bool untimed_wact_ok = fin.A && !untimed_wait_ok_override;

    TvModel cur; cur.A = init_active;
    bool ctl_in_flight = false, t_known = true;
    long n_activate_called = 0, n_trigger_called = 0, n_reset_called = 0;
    bool lbl_blocked_wait = false, lbl_timeout = false, lbl_wait_released = false;
    std::vector<long> trig_ret(ctl.size(), -1);      // step at which the i-th controller op (a successful trigger) returned
    long last_act_call = init_active ? 0 : -1;       // call step of the latest activate() that the model says succeeds
    long last_tr_call = -1;                          // call step of the latest trigger()/reset()
    bool lbl_probe = false, lbl_second = false, lbl_second_reset = false, lbl_nonpos = false;
    struct CtlRec { long call, ret; TvModel after; };
    std::vector<CtlRec> ctl_log;                     // main controller calls with the model state after each
    int tr_in_flight = 0; long last_tr_ret = -1;     // trigger()/reset() calls of any thread: in flight now / latest return step
    int sec_in_flight = 0; long sec_last_ret = -1;   // second triggerer: the model's T bit is exact only if none of its calls can have landed after the last activation
    out.res = vrt::run(c.sched, [&] {
        gc::TriggerVariable tv(init_active);
        std::vector<std::unique_ptr<Tracked>> datum;
        for (size_t i = 0; i < ctl.size(); ++i) datum.emplace_back(new Tracked(uint64_t(0)));
        // controller
        vrt::spawn([&] {
            for (size_t i = 0; i < ctl.size(); ++i) {
                for (int s = 0; s < c.fibers[0][i].b % 3; ++s) vrt::step();
                int k = ctl[i];
                if (k == K_TRIGGER && cur.A) datum[i]->set(uint64_t(55));     // published by the trigger
                ctl_in_flight = true;
                if (k == K_ACTIVATE) { n_activate_called++; if (!cur.A) last_act_call = vrt::now_step(); } else { if (k == K_TRIGGER) n_trigger_called++; else n_reset_called++; last_tr_call = vrt::now_step(); }
                bool exp = apply(cur, k);       // model is updated at call time; waiters abstain while a call is in flight
                ctl_log.push_back(CtlRec{vrt::now_step(), -1, cur});
                bool got = true;
                if (k != K_ACTIVATE) tr_in_flight++;
                if (k == K_ACTIVATE) got = tv.activate(); else if (k == K_TRIGGER) got = tv.trigger(); else tv.reset();
                if (k != K_ACTIVATE) { tr_in_flight--; last_tr_ret = vrt::now_step(); }
                ctl_in_flight = false;
                ctl_log.back().ret = vrt::now_step();
                if (k == K_TRIGGER && exp) trig_ret[i] = vrt::now_step();
                if (second_resetter) continue;      // results and intermediate states are order-dependent with a racing resetter
                if (k != K_RESET && got != exp) vrt::fail("controller-result", std::string(k == K_ACTIVATE ? "activate" : "trigger") + "() returned " + (got ? "true" : "false") + ", model says " + (exp ? "true" : "false"));
                if (tv.isActive() != cur.A) vrt::fail("controller-state", "isActive() disagrees with the model after a controller call");
                // after reset() the property only promises "inactive" (and that blocked waiters were released): the value of
                // isTriggered() is asserted only while it is determined by activate()/trigger()
                if (k == K_RESET || second_triggerer) t_known = false; else if (k == K_ACTIVATE && exp) t_known = true;
                if (t_known && tv.isTriggered() != cur.T) vrt::fail("controller-state", "isTriggered() disagrees with the model after a controller call");
            }
        });
        int n_second_resets = 0;
        if (second_resetter) {
            lbl_second_reset = true;
            for (auto& op : c.fibers[1]) { (void)op; n_second_resets++; }
            vrt::spawn([&] {
                for (auto& op : c.fibers[1]) { for (int s2 = 0; s2 < op.b % 3; ++s2) vrt::step(); n_reset_called++; last_tr_call = vrt::now_step(); tr_in_flight++; tv.reset(); tr_in_flight--; last_tr_ret = vrt::now_step(); }
            });
        }
        if (second_triggerer) {
            // a second thread that only calls trigger(): results are judged with interval reasoning (the model alone is no longer exact for T)
            lbl_second = true;
            vrt::spawn([&] {
                for (auto& op : c.fibers[1]) {
                    for (int s = 0; s < op.b % 3; ++s) vrt::step();
                    bool a_at_call = cur.A, stable = !ctl_in_flight;
                    long a0 = n_activate_called, r0 = n_reset_called;
                    n_trigger_called++; last_tr_call = vrt::now_step();
                    sec_in_flight++; tr_in_flight++;
                    bool got = tv.trigger();
                    sec_in_flight--; tr_in_flight--; sec_last_ret = vrt::now_step(); last_tr_ret = vrt::now_step();
                    if (got && !init_active && n_activate_called == 0) vrt::fail("trigger-result", "trigger() returned true although activate() was never called");
                    if (!got && stable && a_at_call && n_activate_called == a0 && n_reset_called == r0)
                        vrt::fail("trigger-result", "trigger() returned false although the variable was active during the whole call");
                }
            });
        }
        // model state at a given step, if no controller call was in flight at that step (else abstain)
        auto state_at = [&](long step, TvModel& out_m) -> bool {
            TvModel m; m.A = init_active;
            for (auto& r : ctl_log) {
                if (r.call <= step && (r.ret < 0 || r.ret >= step)) return false;     // in flight at `step`
                if (r.ret >= 0 && r.ret < step) m = r.after;
            }
            out_m = m; return true;
        };
        for (size_t i = 1; i < c.fibers.size(); ++i) {
            if (c.fibers[i].empty() || ((second_triggerer || second_resetter) && i == 1)) continue;
            vrt::spawn([&, i] {
                for (auto& op : c.fibers[i]) {
                    for (int s = 0; s < op.b % 3; ++s) vrt::step();
                    int kind = op.code % 4;         // 0 wait, 1 wait_for, 2 waitActivation, 3 wait_forActivation
                    if (kind == 0 && !untimed_wait_ok) kind = 1;
                    if (kind == 2 && !untimed_wact_ok) kind = 3;
                    if (second_resetter) {
                        // only termination is judged in this mode
                        if (kind == 0 && all_finals_inactive) (void)tv.wait();
                        else if (kind == 0 || kind == 1) (void)tv.wait_for(std::chrono::duration_cast<std::chrono::milliseconds>(timed_arg(op.a, false))); else (void)tv.wait_forActivation(std::chrono::duration_cast<std::chrono::milliseconds>(timed_arg(op.a, false)));
                        if (vrt::me().blocking_ops) lbl_blocked_wait = true;
                        continue;
                    }
                    TvModel s0 = cur; bool stable = !ctl_in_flight;
                    bool t_exact = !second_triggerer || (sec_in_flight == 0 && sec_last_ret < last_act_call);
                    long a0 = n_activate_called, t0 = n_trigger_called, r0 = n_reset_called;
                    long b0 = vrt::me().blocking_ops;
                    long wait_call = vrt::now_step();
                    // probe: a waiter that has itself seen the variable active may return from wait only after a trigger()/reset() that
                    // was called after the activation it saw began (valid even while that activate() is still in flight)
                    bool probed_active = false; long act_seen = -2;
                    if ((kind == 0 || kind == 1) && (op.a & 1 || true) && (op.b & 1)) { if (tv.isActive()) { probed_active = true; act_seen = last_act_call; lbl_probe = true; } }
                    if (kind == 0 || kind == 1) {
                        if (kind == 1 && (op.a & 7) >= 4) lbl_nonpos = true;
                        bool r = kind == 0 ? tv.wait() : tv.wait_for(std::chrono::duration_cast<std::chrono::milliseconds>(timed_arg(op.a, false)));
                        if (r && probed_active && act_seen >= 0 && tr_in_flight == 0 && last_tr_ret < act_seen)
                            vrt::fail("wait-early", "wait returned true although the waiter had seen the variable active and every trigger()/reset() call had returned before that activation began");
                        if (r) for (size_t ti = 0; ti < trig_ret.size(); ++ti) if (trig_ret[ti] >= 0 && trig_ret[ti] < wait_call && datum[ti]->read() != uint64_t(55))
                            vrt::fail("publication", "data written before trigger() is not visible to a wait() that began after the trigger returned");
                        bool blocked = vrt::me().blocking_ops != b0;
                        if (blocked) lbl_blocked_wait = true;
                        if (r) {
                            if (stable && t_exact && s0.A && !s0.T && n_trigger_called == t0 && n_reset_called == r0)
                                vrt::fail("wait-early", "wait returned true on an activated, untriggered variable although no trigger()/reset() was called since");
                            if (blocked) lbl_wait_released = true;
                        } else {
                            lbl_timeout = true;
                            if (kind == 0) vrt::fail("wait-false", "untimed wait() returned false");
                            if (stable && (!s0.A || s0.T) && n_activate_called == a0)
                                vrt::fail("timeout-after-event", "wait_for returned false although the variable was inactive or already triggered and was not re-activated");
                            // the event happened *during* the wait: at the moment the wait was declared timed out the trigger had already returned
                            { TvModel mt; long ts = vrt::me().last_timeout_step;
                              if (ts >= 0 && !second_triggerer && state_at(ts, mt) && (!mt.A || mt.T)) {
                                  bool reactivated = false; for (auto& r : ctl_log) if (r.call >= ts && r.after.A && !r.after.T) reactivated = true;
                                  if (!reactivated) vrt::fail("timeout-after-event", "wait_for returned false although trigger()/reset() had completed before the wait gave up");
                              } }
                        }
                    } else {
                        bool r = true;
                        if (kind == 3 && (op.a & 7) >= 4) lbl_nonpos = true;
                        if (kind == 2) tv.waitActivation(); else r = tv.wait_forActivation(std::chrono::duration_cast<std::chrono::milliseconds>(timed_arg(op.a, false)));
                        bool blocked = vrt::me().blocking_ops != b0;
                        if (blocked) lbl_blocked_wait = true;
                        if (r) {
                            if (stable && !s0.A && n_activate_called == a0)
                                vrt::fail("activation-early", "waitActivation returned although activate() was never called since");
                            if (blocked) lbl_wait_released = true;
                        } else {
                            lbl_timeout = true;
                            if (stable && s0.A && n_reset_called == r0)
                                vrt::fail("timeout-after-event", "wait_forActivation returned false although the variable was active and not reset");
                            { TvModel mt; long ts = vrt::me().last_timeout_step;
                              if (ts >= 0 && state_at(ts, mt) && mt.A) {
                                  bool reset_later = false; for (auto& r : ctl_log) if (r.call >= ts && !r.after.A) reset_later = true;
                                  if (!reset_later) vrt::fail("timeout-after-event", "wait_forActivation returned false although activate() had completed before the wait gave up");
                              } }
                        }
                    }
                }
            });
        }
        vrt::join_all();
        if (second_resetter) {
            // racing controllers: per-call results and even the final state are order dependent (the unchanged library itself produces final
            // states no sequential order explains), so only this much is asserted: if every sequential order ends inactive, it ends inactive
            if (all_finals_inactive && tv.isActive()) vrt::fail("final-state", "the variable is still active although every order of the controller calls ends with a reset()");
            return;
        }
        if (tv.isActive() != fin.A || (t_known && !second_triggerer && tv.isTriggered() != fin.T)) vrt::fail("final-state", "final state differs from the two-bit model");
    });
    if (lbl_blocked_wait) out.labels.push_back("waiter-blocked");
    if (lbl_wait_released) out.labels.push_back("blocked-waiter-released");
    if (lbl_timeout) out.labels.push_back("timed-out");
    if (lbl_probe) out.labels.push_back("probed-active-before-wait");
    if (lbl_nonpos) out.labels.push_back("non-positive-timeout");
    if (lbl_second) out.labels.push_back("second-triggerer");
    if (lbl_second_reset) out.labels.push_back("second-resetter");
    if (out.res.spurious_wakes) out.labels.push_back("spurious-wake");
    out.nontrivial = lbl_blocked_wait && !ctl.empty();
    return out;
}


#if VRT_MAXF >= 264
// ================================================================================================ crowds (build flavour "crowd": hundreds of fibers)
inline int fibers_parked_on_cv() { int n = 0; for (vrt::Fiber* f : vrt::rt().fibers) if (!f->done && f->pend == vrt::P_CV) n++; return n; }

// Latch: W waiters blocked in wait() (or still on their way in, mode 1), then exactly `count` arrivals: every waiter returns
vh::Outcome run_latch_crowd(const vh::Case& c) {
    reset_case_globals();
    vh::Outcome out;
    int W = kCrowd[c.cfg.size() > 0 ? c.cfg[0] % 8 : 0];
    int count = 1 + (c.cfg.size() > 1 ? c.cfg[1] % 3 : 0);
    bool all_blocked_first = !(c.cfg.size() > 2 && c.cfg[2] % 3 == 2);
    int returned = 0, parked_at_open = 0;
    out.res = vrt::run(c.sched, [&] {
        gc::Latch latch(count);
        Tracked datum(uint64_t(0));
        for (int i = 0; i < W; ++i) vrt::spawn([&] { latch.wait(); if (datum.read() != uint64_t(7)) vrt::fail("publication", "data written before arrive() is not visible after wait() returned"); returned++; });
        if (all_blocked_first) { int guard = 0; while (fibers_parked_on_cv() < W && ++guard < 200000) vrt::yield_now(); }
        datum.set(uint64_t(7));
        for (int k = 0; k < count; ++k) { if (k == count - 1) parked_at_open = fibers_parked_on_cv(); latch.arrive(); }
        vrt::join_all();
        if (returned != W) vrt::fail("not-released", std::to_string(W - returned) + " of " + std::to_string(W) + " waiters never returned from wait()");
    });
    out.labels.push_back("waiters=" + std::to_string(W));
    if (parked_at_open >= W) out.labels.push_back("all-blocked-when-opened");
    out.nontrivial = parked_at_open >= W / 2;
    return out;
}

// TriggerVariable: W waiters in wait() / waitActivation(), one controller
vh::Outcome run_trigger_crowd(const vh::Case& c) {
    reset_case_globals();
    vh::Outcome out;
    int W = kCrowd[c.cfg.size() > 0 ? c.cfg[0] % 8 : 0];
    int mode = c.cfg.size() > 1 ? c.cfg[1] % 3 : 0;            // 0: trigger releases wait(); 1: reset releases wait(); 2: activate releases waitActivation()
    bool all_blocked_first = !(c.cfg.size() > 2 && c.cfg[2] % 3 == 2);
    int returned = 0, parked = 0;
    out.res = vrt::run(c.sched, [&] {
        gc::TriggerVariable tv(mode != 2);
        for (int i = 0; i < W; ++i) vrt::spawn([&] {
            if (mode == 2) tv.waitActivation(); else if (!tv.wait()) vrt::fail("wait-false", "untimed wait() returned false");
            returned++;
        });
        if (all_blocked_first) { int guard = 0; while (fibers_parked_on_cv() < W && ++guard < 200000) vrt::yield_now(); }
        parked = fibers_parked_on_cv();
        if (mode == 0) { if (!tv.trigger()) vrt::fail("controller-result", "trigger() on an active variable returned false"); }
        else if (mode == 1) tv.reset();
        else if (!tv.activate()) vrt::fail("controller-result", "activate() on an inactive variable returned false");
        vrt::join_all();
        if (returned != W) vrt::fail("not-released", std::to_string(W - returned) + " of " + std::to_string(W) + " blocked waiters were not released");
    });
    out.labels.push_back("waiters=" + std::to_string(W));
    out.labels.push_back(mode == 0 ? "released-by-trigger" : mode == 1 ? "released-by-reset" : "released-by-activate");
    out.nontrivial = parked >= W / 2;
    return out;
}

vh::GenSpec crowd_spec(bool th, std::vector<int> cfg) { vh::GenSpec g; g.nfibers = 2; g.max_ops = 2; g.ncodes = 1; g.amax = 8; g.bmax = 4; g.cfg_max = cfg; g.sched_len = th ? 96 : 64; g.aux_len = 24; g.aux_density = 10; g.step_budget = 60000; return g; }
vh::Register rbc("C09c", crowd_spec(false, {8, 3}), crowd_spec(true, {8, 3}), [](const vh::Case& c) { return run_barrier(c, true); },
                 "as C09 with 3 / 126..129 / 255..257 participants (1..3 generations, the first two participants follow generated drop/pause programs); non-trivial as C09");
vh::Register rlc("C10c", crowd_spec(false, {8, 3, 3}), crowd_spec(true, {8, 3, 3}), run_latch_crowd,
                 "Latch(count 1..3) with 3 / 126..129 / 255..257 waiters; in two thirds of the cases every waiter is parked on the condition variable before the first arrive(); exactly count arrivals; "
                 "every waiter must return and see the published datum; non-trivial = at least half of the waiters were parked when the last arrival was made");
vh::Register rtc("C11c", crowd_spec(false, {8, 3, 3}), crowd_spec(true, {8, 3, 3}), run_trigger_crowd,
                 "TriggerVariable with 3 / 126..129 / 255..257 threads blocked in wait() (released by trigger() or by reset()) or in waitActivation() (released by activate()); every one must return; "
                 "non-trivial = at least half of them were parked on the condition variable when the controller call was made");
#endif

vh::GenSpec bspec(bool th) { vh::GenSpec g; g.nfibers = 5; g.max_ops = 4; g.ncodes = 1; g.amax = 8; g.bmax = 4; g.cfg_max = {5, 4}; g.sched_len = th ? 224 : 160; g.aux_len = 32; g.aux_density = 20; return g; }
vh::GenSpec lspec(bool th) { vh::GenSpec g; g.nfibers = 4; g.max_ops = th ? 5 : 3; g.ncodes = 3; g.amax = 1; g.bmax = 3; g.cfg_max = {5, 2}; g.sched_len = th ? 160 : 112; g.aux_len = 32; g.aux_density = 20; return g; }
vh::GenSpec tspec(bool th) { vh::GenSpec g; g.nfibers = 4; g.max_ops = th ? 6 : 5; g.ncodes = 12; g.amax = 8; g.bmax = 3; g.cfg_max = {3, 3}; g.sched_len = th ? 192 : 144; g.aux_len = 40; g.aux_density = 25; return g; }

vh::Register rb("C09", bspec(false), bspec(true), [](const vh::Case& c) { return run_barrier(c); },
                "N in 2..5 participants x G in 1..4 generations with generated drop generations, pauses, schedules and spurious wake-ups; non-trivial = a participant entered generation g+1 "
                "while another had not yet left g (lap) with G>=2, or a participant dropped");
vh::Register rl("C10", lspec(false), lspec(true), run_latch,
                "generated arrive / wait / arrive_and_wait programs (count 1..4, total arrivals >= count, sometimes more) x schedules with spurious wake-ups; non-trivial = a wait call overlapped an "
                "arrive call in time and a waiter actually blocked");
vh::Register rt_("C11", tspec(false), tspec(true), run_trigger,
                 "one controller issuing generated activate/trigger/reset sequences, 1-3 waiters using wait/wait_for/waitActivation/wait_forActivation, generated schedules, spurious wake-ups and time-outs; "
                 "non-trivial = some waiter actually blocked on a condition variable");

}  // namespace
