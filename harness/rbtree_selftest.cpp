// Self-test of vrt/rbtree_visible.hpp: generated insert / erase / hinted-insert / iterate sequences on std::map and std::multiset using the
// definitions from that header, compared with a sorted reference after every operation, with the red-black invariants checked on the
// tree itself (root black, no red-red edge, equal black heights, parent links, leftmost / rightmost in the header, node count).
// usage: rbtree_selftest <seed> <sequences>
#include "../vrt/rbtree_visible.hpp"
#include <map>
#include <set>
#include <vector>
#include <algorithm>
#include <cstdio>
#include <cstdlib>
#include <random>

using NB = std::_Rb_tree_node_base;



static int check_sub(const NB* n, const NB* parent, bool& ok) {
    if (!n) return 1;
    if (n->_M_parent != parent) ok = false;
    if (n->_M_color == std::_S_red) { if ((n->_M_left && n->_M_left->_M_color == std::_S_red) || (n->_M_right && n->_M_right->_M_color == std::_S_red)) ok = false; }
    int l = check_sub(n->_M_left, n, ok), r = check_sub(n->_M_right, n, ok);
    if (l != r) ok = false;
    return l + (n->_M_color == std::_S_black ? 1 : 0);
}
template<class C> static bool invariants(const C& c) {
    const NB* header = c.end()._M_node;
    const NB* root = header->_M_parent;
    bool ok = true;
    if (!root) return c.empty() && header->_M_left == header && header->_M_right == header;
    if (root->_M_color != std::_S_black) ok = false;
    check_sub(root, header, ok);
    const NB* lm = root; while (lm->_M_left) lm = lm->_M_left;
    const NB* rm = root; while (rm->_M_right) rm = rm->_M_right;
    if (header->_M_left != lm || header->_M_right != rm) ok = false;
    size_t n = 0; for (auto it = c.begin(); it != c.end(); ++it) n++;
    if (n != c.size()) ok = false;
    size_t m = 0; for (auto it = c.end(); it != c.begin(); --it) m++;
    if (m != c.size()) ok = false;
    return ok;
}

int main(int argc, char** argv) {
    unsigned seed = argc > 1 ? (unsigned)std::atoi(argv[1]) : 1;
    int seqs = argc > 2 ? std::atoi(argv[2]) : 2000;
    std::mt19937 rng(seed);      // (a plain self-test of harness code, outside the VERIF_SEED-driven checks: the seed comes from the command line)
    long ops = 0;
    for (int s = 0; s < seqs; ++s) {
        std::map<int, int> m; std::multiset<int> ms;
        std::vector<int> ref; std::vector<int> mref;
        int range = 1 + (int)(rng() % (s % 3 == 0 ? 8 : s % 3 == 1 ? 64 : 1000));
        int len = 1 + (int)(rng() % 300);
        for (int i = 0; i < len; ++i, ++ops) {
            int k = (int)(rng() % (unsigned)range);
            switch (rng() % 6) {
                case 0: case 1: { bool ins = m.emplace(k, k * 3).second; bool exp = !std::binary_search(ref.begin(), ref.end(), k); if (ins != exp) { std::printf("FAIL insert result\n"); return 1; } if (ins) ref.insert(std::lower_bound(ref.begin(), ref.end(), k), k); break; }
                case 2: { size_t n = m.erase(k); bool exp = std::binary_search(ref.begin(), ref.end(), k); if ((n == 1) != exp) { std::printf("FAIL erase result\n"); return 1; } if (exp) ref.erase(std::lower_bound(ref.begin(), ref.end(), k)); break; }
                case 3: { auto it = m.lower_bound(k); if (it != m.end()) { int kk = it->first; it = m.erase(it); ref.erase(std::lower_bound(ref.begin(), ref.end(), kk)); if (it != m.end() && !(it->first > kk)) { std::printf("FAIL erase(it) successor\n"); return 1; } } break; }
                case 4: { ms.insert(k); mref.insert(std::upper_bound(mref.begin(), mref.end(), k), k); auto h = m.lower_bound(k); if (h == m.end() || h->first != k) { m.emplace_hint(h, k, k * 3); ref.insert(std::lower_bound(ref.begin(), ref.end(), k), k); } break; }
                default: { auto r = ms.equal_range(k); size_t n = (size_t)std::distance(r.first, r.second); auto rr = std::equal_range(mref.begin(), mref.end(), k); if (n != (size_t)(rr.second - rr.first)) { std::printf("FAIL multiset count\n"); return 1; } if (n) { ms.erase(r.first); mref.erase(rr.first); } break; }
            }
            std::vector<int> got; for (auto& kv : m) { got.push_back(kv.first); if (kv.second != kv.first * 3) { std::printf("FAIL value\n"); return 1; } }
            if (got != ref) { std::printf("FAIL map contents differ from the sorted reference (seq %d op %d)\n", s, i); return 1; }
            if (std::vector<int>(ms.begin(), ms.end()) != mref) { std::printf("FAIL multiset contents differ (seq %d op %d)\n", s, i); return 1; }
            if (!invariants(m) || !invariants(ms)) { std::printf("FAIL red-black invariant broken (seq %d op %d)\n", s, i); return 1; }
        }
        while (!m.empty()) { if (rng() & 1) m.erase(m.begin()); else m.erase(std::prev(m.end())); if (!invariants(m)) { std::printf("FAIL invariant while draining\n"); return 1; } }
    }
    std::printf("rbtree self-test OK: %d sequences, %ld operations\n", seqs, ops);
    return 0;
}
