// Family "atomicreg": atomic_guarded<Tracked> as one atomic register (C15a sequential + concurrent, C20a with throwing copy/assign/compare).
#include "common.hpp"
#include "../vrt/linearize.hpp"

namespace {

enum K { A_LOAD, A_STORE, A_ASSIGN, A_CAST, A_EXCHANGE, A_CAS, A_NK };
struct AOp { int kind; int v = 0, exp = 0; int rv = 0; bool rbool = false; int rexp = 0; };
struct Reg { int v = 0; };
bool stepA(Reg& r, const AOp& op) {
    switch (op.kind) {
        case A_LOAD: case A_CAST: return op.rv == r.v;
        case A_STORE: case A_ASSIGN: r.v = op.v; return true;
        case A_EXCHANGE: if (op.rv != r.v) return false; r.v = op.v; return true;
        case A_CAS:
            if (r.v == op.exp) { if (!op.rbool) return false; r.v = op.v; return true; }
            return !op.rbool && op.rexp == r.v;
    }
    return false;
}
std::string keyA(const Reg& r) { return std::to_string(r.v); }

template<class M>
vh::Outcome run_atomic(const vh::Case& c, bool concurrent) {
    reset_case_globals();
    vh::Outcome out;
    std::vector<AOp> hist; std::vector<vlin::Interval> iv;
    bool faults = c.sched.fault_k != 0;
    int in_flight = 0; bool overlap = false, rmw_overlap = false;
    out.res = vrt::run(c.sched, [&] {
        std::unique_ptr<lg::atomic_guarded<Tracked, M>> agp(ctor_from_rvalue(c) ? new lg::atomic_guarded<Tracked, M>(Tracked(uint64_t(0))) : new lg::atomic_guarded<Tracked, M>(uint64_t(0)));
        auto& ag = *agp;
        auto run_ops = [&](const std::vector<vh::Op>& ops) {
            for (auto& o : ops) {
                AOp op; op.kind = o.code % A_NK; op.v = 1 + o.a % 3; op.exp = o.b % 4;
                if (in_flight > 0) { overlap = true; if (op.kind >= A_STORE && op.kind != A_CAST) rmw_overlap = true; }
                in_flight++;
                long call = vrt::now_step();
                bool threw = false;
                try {
                    switch (op.kind) {
                        case A_LOAD: { Tracked t = ag.load(); op.rv = (int)t.peek(); break; }
                        case A_CAST: { Tracked t = static_cast<Tracked>(ag); op.rv = (int)t.peek(); break; }
                        case A_STORE: { Tracked nv((uint64_t)op.v); ag.store(nv); break; }
                        case A_ASSIGN: { Tracked nv((uint64_t)op.v); ag = nv; break; }
                        case A_EXCHANGE: { Tracked old = ag.exchange(Tracked((uint64_t)op.v)); op.rv = (int)old.peek(); break; }
                        default: { Tracked e((uint64_t)op.exp); Tracked d((uint64_t)op.v); op.rbool = ag.compare_exchange(e, d); op.rexp = (int)e.peek(); break; }
                    }
                } catch (const vrt::InjectedFault&) {
                    if (!faults) vrt::fail("escaped-fault", "fault without a plan");
                    threw = true;
                }
                long ret = vrt::now_step();
                in_flight--;
                if (vrt::me().held != 0) vrt::fail("lock-leaked", "atomic_guarded's mutex is still held after an operation returned or threw");
                if (threw) { (void)ret; continue; }      // a throwing operation may or may not have taken effect (exchange: swap is three moves); it is left out of the history
                hist.push_back(op); iv.push_back({call, ret});
            }
        };
        if (!concurrent) run_ops(c.fibers.empty() ? std::vector<vh::Op>() : c.fibers[0]);
        else {
            for (size_t i = 0; i < c.fibers.size(); ++i) if (!c.fibers[i].empty()) vrt::spawn([&, i] { run_ops(c.fibers[i]); });
            vrt::join_all();
        }
        vrt::disable_faults();
        { AOp op; op.kind = A_LOAD; long call = vrt::now_step(); Tracked t = ag.load(); op.rv = (int)t.peek(); hist.push_back(op); iv.push_back({call, vrt::now_step()}); }
        if (!faults) {
            Reg init;
            bool ok;
            if (!concurrent) { Reg r = init; ok = true; for (auto& op : hist) if (!stepA(r, op)) { ok = false; break; } }
            else ok = hist.size() > 22 ? true : vlin::linearizable(hist, iv, init, stepA, keyA);
            if (!ok) vrt::fail(concurrent ? "not-linearizable" : "model-mismatch", "atomic_guarded history has no explanation as operations on a single register");
        }
    });
    if (overlap) out.labels.push_back("calls-overlapped");
    if (rmw_overlap) out.labels.push_back("write-overlapped");
    if (out.res.faults_fired) out.labels.push_back("fault-fired");
    out.nontrivial = faults ? out.res.faults_fired > 0 : (concurrent ? rmw_overlap : hist.size() >= 4);
    return out;
}
vh::Outcome disp(const vh::Case& c, bool conc) { return (!c.cfg.empty() && c.cfg[0] % 2) ? run_atomic<vstd::timed_mutex>(c, conc) : run_atomic<vstd::mutex>(c, conc); }

vh::GenSpec spec(bool conc, bool th, bool faults = false) {
    vh::GenSpec g; g.sequential = !conc; g.nfibers = conc ? 3 : 1; g.max_ops = conc ? (th ? 6 : 4) : (th ? 24 : 12); g.ncodes = A_NK; g.amax = 3; g.bmax = 4; g.cfg_max = {2};
    g.sched_len = 128; g.aux_len = 8;
    if (faults) { g.fault_max = 10; g.fault_mask = vrt::F_COPY | vrt::F_ASSIGN | vrt::F_COMPARE; }
    return g;
}
vh::Register r1("C15as", spec(false, false), spec(false, true), [](const vh::Case& c) { return disp(c, false); },
                "generated sequential load/store/=/cast/exchange/compare_exchange sequences with values 0..3 checked against a model register; non-trivial = at least 3 operations");
vh::Register r2("C15a", spec(true, false), spec(true, true), [](const vh::Case& c) { return disp(c, true); },
                "generated 3-fiber histories of the same operations on a Tracked payload (copy/assign/compare contain scheduling points) x schedule, WGL linearizability search against a register; "
                "non-trivial = a writing operation overlapped another call");
vh::Register r3("C20a", spec(true, false, true), spec(true, true, true), [](const vh::Case& c) { return disp(c, true); },
                "as C15a with a fault plan over payload copy / assignment / comparison: the mutex must be released and the object stay usable");

}  // namespace
