// Family "atomicreg": atomic_guarded<Tracked> as one atomic register (C15a sequential + concurrent, C20a with throwing copy/assign/compare).
#include "common.hpp"
#include "../vrt/linearize.hpp"

namespace {

enum K { A_LOAD, A_STORE, A_ASSIGN, A_CAST, A_EXCHANGE, A_CAS, A_NK };
struct AOp { int kind; int v = 0, exp = 0; int rv = 0; bool rbool = false; int rexp = 0; };
struct Reg { int v = 0; };
bool stepA(Reg& r, const AOp& op) {
    switch (op.kind) {
        case A_LOAD: case A_CAST: return op.rv == r.v;
        case A_STORE: case A_ASSIGN: r.v = op.v; return true;
        case A_EXCHANGE: if (op.rv != r.v) return false; r.v = op.v; return true;
        case A_CAS:
            if (r.v == op.exp) { if (!op.rbool) return false; r.v = op.v; return true; }
            return !op.rbool && op.rexp == r.v;
    }
    return false;
}
std::string keyA(const Reg& r) { return std::to_string(r.v); }

// payload variants: the instrumented Tracked; a trivially copyable type whose operator== is coarser than its object representation
// (a field that equality ignores); and double, where -0.0 == 0.0.  "Equal" in the property means operator==.
struct Keyed { int key; int hint; bool operator==(const Keyed& o) const { return key == o.key; } bool operator!=(const Keyed& o) const { return !(*this == o); } };
static_assert(std::is_trivially_copyable<Keyed>::value, "Keyed is trivially copyable");
template<class P> struct PT;
template<> struct PT<Tracked> { static Tracked make(int v, int) { return Tracked((uint64_t)v); } static int id(const Tracked& t) { return (int)t.peek(); } static constexpr const char* name = "Tracked"; };
template<> struct PT<vrt::TrackedNX> { static vrt::TrackedNX make(int v, int) { return vrt::TrackedNX((uint64_t)v); } static int id(const vrt::TrackedNX& t) { return (int)t.peek(); } static constexpr const char* name = "TrackedNX(noexcept move, throwing copy)"; };
template<> struct PT<Keyed> { static Keyed make(int v, int salt) { return Keyed{v, salt}; } static int id(const Keyed& k) { return k.key; } static constexpr const char* name = "Keyed(trivially copyable, == ignores a field)"; };
template<> struct PT<double> { static double make(int v, int salt) { return v == 0 ? ((salt & 1) ? -0.0 : 0.0) : (double)v; } static int id(const double& d) { return (int)d; } static constexpr const char* name = "double(+-0.0)"; };

template<class M, class P = Tracked>
vh::Outcome run_atomic(const vh::Case& c, bool concurrent) {
    using T = PT<P>;
    reset_case_globals();
    vh::Outcome out;
    std::vector<AOp> hist; std::vector<vlin::Interval> iv;
    bool faults = c.sched.fault_k != 0;
    int in_flight = 0; bool overlap = false, rmw_overlap = false;
    out.res = vrt::run(c.sched, [&] {
        std::unique_ptr<lg::atomic_guarded<P, M>> agp;
        if constexpr (std::is_same<P, Tracked>::value) { if (!ctor_from_rvalue(c)) agp.reset(new lg::atomic_guarded<P, M>(uint64_t(0))); }
        if (!agp) agp.reset(new lg::atomic_guarded<P, M>(T::make(0, 0)));
        int salt = 0;
        auto& ag = *agp;
        auto run_ops = [&](const std::vector<vh::Op>& ops) {
            for (auto& o : ops) {
                AOp op; op.kind = o.code % A_NK; op.v = 1 + o.a % 3; op.exp = o.b % 4;
                if (in_flight > 0) { overlap = true; if (op.kind >= A_STORE && op.kind != A_CAST) rmw_overlap = true; }
                in_flight++;
                long call = vrt::now_step();
                bool threw = false;
                try {
                    switch (op.kind) {
                        case A_LOAD: { P t = ag.load(); op.rv = T::id(t); break; }
                        case A_CAST: { P t = static_cast<P>(ag); op.rv = T::id(t); break; }
                        case A_STORE: { P nv = T::make(op.v, ++salt); ag.store(nv); break; }
                        case A_ASSIGN: { P nv = T::make(op.v, ++salt); ag = nv; break; }
                        case A_EXCHANGE: { P old = ag.exchange(T::make(op.v, ++salt)); op.rv = T::id(old); break; }
                        default: { P e = T::make(op.exp, ++salt); P d = T::make(op.v, ++salt);
                                   if (o.b & 2) op.rbool = ag.compare_exchange(e, std::move(d)); else op.rbool = ag.compare_exchange(e, d);      // desired as rvalue or lvalue
                                   op.rexp = T::id(e); break; }
                    }
                } catch (const vrt::InjectedFault&) {
                    if (!faults) vrt::fail("escaped-fault", "fault without a plan");
                    threw = true;
                }
                long ret = vrt::now_step();
                in_flight--;
                if (vrt::me().held != 0) vrt::fail("lock-leaked", "atomic_guarded's mutex is still held after an operation returned or threw");
                if (threw) { (void)ret; continue; }      // a throwing operation may or may not have taken effect (exchange: swap is three moves); it is left out of the history
                hist.push_back(op); iv.push_back({call, ret});
            }
        };
        if (!concurrent) run_ops(c.fibers.empty() ? std::vector<vh::Op>() : c.fibers[0]);
        else {
            for (size_t i = 0; i < c.fibers.size(); ++i) if (!c.fibers[i].empty()) vrt::spawn([&, i] { run_ops(c.fibers[i]); });
            vrt::join_all();
        }
        vrt::disable_faults();
        { AOp op; op.kind = A_LOAD; long call = vrt::now_step(); P t = ag.load(); op.rv = T::id(t); hist.push_back(op); iv.push_back({call, vrt::now_step()}); }
        if (!faults) {
            Reg init;
            bool ok;
            if (!concurrent) { Reg r = init; ok = true; for (auto& op : hist) if (!stepA(r, op)) { ok = false; break; } }
            else ok = hist.size() > 22 ? true : vlin::linearizable(hist, iv, init, stepA, keyA);
            if (!ok) vrt::fail(concurrent ? "not-linearizable" : "model-mismatch", "atomic_guarded history has no explanation as operations on a single register");
        }
    });
    if (overlap) out.labels.push_back("calls-overlapped");
    if (rmw_overlap) out.labels.push_back("write-overlapped");
    if (out.res.faults_fired) out.labels.push_back("fault-fired");
    out.labels.push_back(std::string("T=") + T::name);
    out.nontrivial = faults ? out.res.faults_fired > 0 : (concurrent ? rmw_overlap : hist.size() >= 4);
    return out;
}
vh::Outcome disp(const vh::Case& c, bool conc) {
    int pay = (c.sched.fault_k || c.cfg.size() < 2) ? 0 : c.cfg[1] % 4;       // half Tracked, a quarter each Keyed and double (fault plans need the instrumented payload)
    bool timed = !c.cfg.empty() && c.cfg[0] % 2;
    // fault plans: half on a payload whose moves are noexcept while its copies may throw (type-trait dependent exception specifications)
    if (c.sched.fault_k && c.cfg.size() > 1 && (c.cfg[1] & 1)) return timed ? run_atomic<vstd::timed_mutex, vrt::TrackedNX>(c, conc) : run_atomic<vstd::mutex, vrt::TrackedNX>(c, conc);
    if (pay == 2) return timed ? run_atomic<vstd::timed_mutex, Keyed>(c, conc) : run_atomic<vstd::mutex, Keyed>(c, conc);
    if (pay == 3) return timed ? run_atomic<vstd::timed_mutex, double>(c, conc) : run_atomic<vstd::mutex, double>(c, conc);
    return timed ? run_atomic<vstd::timed_mutex>(c, conc) : run_atomic<vstd::mutex>(c, conc);
}

vh::GenSpec spec(bool conc, bool th, bool faults = false) {
    vh::GenSpec g; g.sequential = !conc; g.nfibers = conc ? 3 : 1; g.max_ops = conc ? (th ? 6 : 4) : (th ? 24 : 12); g.ncodes = A_NK; g.amax = 3; g.bmax = 4; g.cfg_max = {2, 4};
    g.sched_len = 128; g.aux_len = 8;
    if (faults) { g.fault_max = 10; g.fault_mask = vrt::F_COPY | vrt::F_ASSIGN | vrt::F_COMPARE; }
    return g;
}
vh::Register r1("C15as", spec(false, false), spec(false, true), [](const vh::Case& c) { return disp(c, false); },
                "generated sequential load/store/=/cast/exchange/compare_exchange sequences with values 0..3 checked against a model register; non-trivial = at least 3 operations");
vh::Register r2("C15a", spec(true, false), spec(true, true), [](const vh::Case& c) { return disp(c, true); },
                "generated 3-fiber histories of the same operations on a Tracked payload (copy/assign/compare contain scheduling points) x schedule, WGL linearizability search against a register; "
                "non-trivial = a writing operation overlapped another call");
vh::Register r3("C20a", spec(true, false, true), spec(true, true, true), [](const vh::Case& c) { return disp(c, true); },
                "as C15a with a fault plan over payload copy / assignment / comparison: the mutex must be released and the object stay usable");

}  // namespace
