// Real-thread engine ("rt"): rapidcheck-generated client programs executed on real std::threads, in binaries built with
// -fsanitize=thread (and, separately, address+undefined).  It sees what the fiber runtime cannot: plain internal fields and the
// internals of std::map / std::vector / std::shared_ptr / std::promise.  A sanitizer report aborts the worker; the driver picks
// up the case that was running and re-runs it repeatedly (statistical replay).  See DESIGN.md §3.4.
//
// Minimal shim: only std::timed_mutex and std::shared_timed_mutex are replaced (clang-14/gcc-12 TSan do not intercept the
// pthread *clocklock* family, which produces false reports); the replacements implement the timed forms as try-lock loops over
// the ordinary, intercepted primitives.
#include <rapidcheck.h>
#include <bits/stdc++.h>
#include <shared_mutex>
#include "../vrt/rbtree_visible.hpp"      // std::map / std::set link and rebalance code compiled with the sanitizer (libstdc++.so's is invisible to TSan)

namespace rtstd {
using namespace ::std;
struct timed_mutex {
    ::std::mutex m;
    void lock() { m.lock(); }
    bool try_lock() { return m.try_lock(); }
    void unlock() { m.unlock(); }
    template<class R, class P> bool try_lock_for(const ::std::chrono::duration<R, P>& d) { return try_lock_until(::std::chrono::steady_clock::now() + d); }
    template<class C, class D> bool try_lock_until(const ::std::chrono::time_point<C, D>& tp) {
        do { if (m.try_lock()) return true; ::std::this_thread::yield(); } while (C::now() < tp);
        return false;
    }
};
struct shared_timed_mutex {
    ::std::shared_mutex m;
    void lock() { m.lock(); }
    bool try_lock() { return m.try_lock(); }
    void unlock() { m.unlock(); }
    void lock_shared() { m.lock_shared(); }
    bool try_lock_shared() { return m.try_lock_shared(); }
    void unlock_shared() { m.unlock_shared(); }
    template<class R, class P> bool try_lock_for(const ::std::chrono::duration<R, P>& d) { return try_lock_until(::std::chrono::steady_clock::now() + d); }
    template<class C, class D> bool try_lock_until(const ::std::chrono::time_point<C, D>& tp) {
        do { if (m.try_lock()) return true; ::std::this_thread::yield(); } while (C::now() < tp);
        return false;
    }
    template<class R, class P> bool try_lock_shared_for(const ::std::chrono::duration<R, P>& d) { return try_lock_shared_until(::std::chrono::steady_clock::now() + d); }
    template<class C, class D> bool try_lock_shared_until(const ::std::chrono::time_point<C, D>& tp) {
        do { if (m.try_lock_shared()) return true; ::std::this_thread::yield(); } while (C::now() < tp);
        return false;
    }
};
}  // namespace rtstd

#define std rtstd
#include <libguarded/handles.hpp>
#include <libguarded/guarded.hpp>
#include <libguarded/guarded_opt.hpp>
#include <libguarded/shared_guarded.hpp>
#include <libguarded/shared_guarded_opt.hpp>
#include <libguarded/ordered_guarded.hpp>
#include <libguarded/deferred_guarded.hpp>
#include <libguarded/atomic_guarded.hpp>
#include <libguarded/lr_guarded.hpp>
#include <libguarded/cow_guarded.hpp>
#include <libguarded/rcu_guarded.hpp>
#include <libguarded/rcu_list.hpp>
#include <concurrency/Barrier.hpp>
#include <concurrency/Latch.hpp>
#include <concurrency/TriggerVariable.hpp>
#include <concurrency/TripWire.hpp>
#include <concurrency/DelayedDestructor.hpp>
#include <concurrency/DelayedObjects.hpp>
#include <concurrency/SearchableObjectHolder.hpp>
#undef std
#include "../vrt/harness.hpp"

// Results of queries are *used*: a call whose result is discarded can be removed entirely by the optimiser once a (seeded) change has
// taken the lock - its only side effect - out of it, and then no sanitizer can see the unprotected read.
template<class T> inline void keep(const T& v) { asm volatile("" : : "r,m"(v) : "memory"); }

namespace lg = gmlc::libguarded;
namespace gc = gmlc::concurrency;

DECLARE_TRIPLINE()
DECLARE_INDEXED_TRIPLINES(60000)

namespace {

using Payload = std::vector<int>;     // plain, non-atomic, heap-backed: races and use-after-free are visible to the sanitizers

struct Failure { std::atomic<bool> set{false}; std::string kind, msg; std::mutex m;
    void report(const char* k, const std::string& s) { std::lock_guard<std::mutex> l(m); if (!set.load()) { kind = k; msg = s; set.store(true); } } };

inline void jitter(int n) { volatile int x = 0; for (int i = 0; i < n * 40; ++i) x = x + 1; }

// Runs `nthreads` workers behind a start gate, `reps` repetitions each; a watchdog turns a hang into a process exit the driver sees.
template<class Fn>
void run_threads(int nthreads, Fn fn) {
    std::atomic<int> ready{0};
    std::atomic<bool> go{false};
    std::vector<std::thread> th;
    for (int t = 0; t < nthreads; ++t)
        th.emplace_back([&, t] { ready++; while (!go.load()) std::this_thread::yield(); fn(t); });
    while (ready.load() < nthreads) std::this_thread::yield();
    go.store(true);
    for (auto& x : th) x.join();
}

std::atomic<long> g_case_started_ms{0};
void start_watchdog() {
    static std::once_flag once;
    std::call_once(once, [] {
        std::thread([] {
            for (;;) {
                std::this_thread::sleep_for(std::chrono::milliseconds(500));
                long s = g_case_started_ms.load();
                long now = (long)std::chrono::duration_cast<std::chrono::milliseconds>(std::chrono::steady_clock::now().time_since_epoch()).count();
                if (s > 0 && now - s > 30000) { std::fprintf(stderr, "RT-HANG: a generated program did not finish within 30 s (deadlock or lost wake-up)\n"); std::_Exit(77); }
            }
        }).detach();
    });
}
struct CaseTimer {
    CaseTimer() { start_watchdog(); g_case_started_ms.store((long)std::chrono::duration_cast<std::chrono::milliseconds>(std::chrono::steady_clock::now().time_since_epoch()).count()); }
    ~CaseTimer() { g_case_started_ms.store(0); }
};

// a small trivially copyable payload: libraries sometimes special-case such types (lock-free fast paths)
struct Pod16 { uint64_t a, b; bool operator==(const Pod16& o) const { return a == o.a && b == o.b; } };

int active_fibers(const vh::Case& c) { int n = 0; for (auto& f : c.fibers) if (!f.empty()) n++; return n; }

// ------------------------------------------------------------------------------------------------ subjects
enum Subject { SJ_GUARDED, SJ_SHARED, SJ_ORDERED, SJ_LR, SJ_COW, SJ_DEFERRED, SJ_RCU, SJ_ATOMIC, SJ_PRIMS, SJ_DD, SJ_SOH, SJ_DOBJ, SJ_TRIPWIRE, SJ_N };
const char* sjname[] = {"guarded", "shared_guarded", "ordered_guarded", "lr_guarded", "cow_guarded", "deferred_guarded", "rcu_list", "atomic_guarded", "barrier+latch+trigger",
                        "DelayedDestructor", "SearchableObjectHolder", "DelayedObjects", "TripWire"};

template<class M>
void sj_guarded(const vh::Case& c, Failure& F, int reps) {
    lg::guarded<Payload, M> g;
    lg::guarded_opt<Payload, M> go(true);
    std::atomic<long> pushes{0};
    run_threads((int)c.fibers.size(), [&](int t) {
        for (int r = 0; r < reps; ++r) for (auto& op : c.fibers[(size_t)t]) {
            jitter(op.b);
            switch (op.code % 7) {
                case 0: { auto h = g.lock(); h->push_back(t); pushes++; break; }
                case 1: { auto h = g.try_lock(); if (h) { h->push_back(t); pushes++; } break; }
                case 2: { Payload p = g.load(); keep(p.size()); break; }
                case 3: { Payload p = g.load(); p.push_back(1); g.store(p); break; }      // not atomic as a whole, but each half is
                case 4: { auto h = go.lock(); h->push_back(t); break; }
                case 5: { if constexpr (std::is_same<M, rtstd::timed_mutex>::value) { auto h = g.try_lock_for(std::chrono::microseconds(50)); if (h) h->push_back(t); } else { auto h = go.try_lock(); if (h) h->push_back(t); } break; }
                default: { go = Payload{1, 2, 3}; break; }
            }
        }
    });
    (void)F;
}

template<class M>
void sj_shared(const vh::Case& c, Failure& F, int reps) {
    lg::shared_guarded<Payload, M> g;
    lg::shared_guarded_opt<Payload, M> go(true);
    run_threads((int)c.fibers.size(), [&](int t) {
        for (int r = 0; r < reps; ++r) for (auto& op : c.fibers[(size_t)t]) {
            jitter(op.b);
            switch (op.code % 8) {
                case 0: { auto h = g.lock(); h->push_back(t); break; }
                case 1: { auto h = g.lock_shared(); long s = 0; for (int v : *h) s += v; keep(s); break; }
                case 2: { auto h = g.try_lock_shared(); if (h) keep(h->size()); break; }
                case 3: { auto h = g.try_lock(); if (h) h->push_back(t); break; }
                case 4: { auto h = go.lock(); h->push_back(t); break; }
                case 5: { auto h = go.lock_shared(); keep(h->size()); break; }
                case 6: { if constexpr (std::is_same<M, rtstd::shared_timed_mutex>::value) { auto h = g.try_lock_shared_for(std::chrono::microseconds(50)); if (h) keep(h->size()); auto h2 = g.try_lock_for(std::chrono::microseconds(50)); if (h2) h2->push_back(t); } break; }
                default: { const auto& cg = g; auto h = cg.lock(); keep(h->size()); break; }
            }
        }
    });
    (void)F;
}

void sj_ordered(const vh::Case& c, Failure& F, int reps) {
    lg::ordered_guarded<Payload> g;
    run_threads((int)c.fibers.size(), [&](int t) {
        for (int r = 0; r < reps; ++r) for (auto& op : c.fibers[(size_t)t]) {
            jitter(op.b);
            switch (op.code % 6) {
                case 0: g.modify([&](Payload& p) { p.push_back(t); }); break;
                case 1: g.read([&](const Payload& p) { long s = 0; for (int v : p) s += v; keep(s); }); break;
                case 2: { auto h = g.lock_shared(); keep(h->size()); break; }
                case 3: { Payload p = g.load(); keep(p); break; }
                case 4: { g.store(Payload{t}); break; }
                default: { auto h = g.try_lock_shared(); if (h) keep(h->size()); break; }
            }
        }
    });
    (void)F;
}

void sj_lr(const vh::Case& c, Failure& F, int reps) {
    lg::lr_guarded<Payload> g;
    std::atomic<long> mods{0};
    // shared handles are movable and have no thread affinity: some are handed to another thread through a mailbox and released there
    std::mutex mb_m; std::vector<lg::lr_guarded<Payload>::shared_handle> mailbox;
    run_threads((int)c.fibers.size(), [&](int t) {
        for (int r = 0; r < reps; ++r) for (auto& op : c.fibers[(size_t)t]) {
            jitter(op.b);
            if (op.code % 3 == 0 && (op.a & 12) == 12) {
                // take over a handle another thread acquired and release it here, or post one for somebody else (never while holding one: the writer needs progress)
                std::optional<lg::lr_guarded<Payload>::shared_handle> taken;      // (the handle type is neither default-constructible nor move-assignable)
                { std::lock_guard<std::mutex> lk(mb_m); if (!mailbox.empty()) { taken.emplace(std::move(mailbox.back())); mailbox.pop_back(); } }
                if (taken) { keep((*taken)->size()); taken.reset(); }
                else { auto h = g.lock_shared(); keep(h->size()); std::lock_guard<std::mutex> lk(mb_m); if (mailbox.size() < 2) mailbox.push_back(std::move(h)); }
            }
            else if (op.code % 3 == 0) {
                // a writer first releases whatever is posted (possibly its own earlier handle): afterwards it can only be delayed by handles whose
                // posters are still running, and every poster empties the mailbox again before it writes or finishes
                { std::vector<lg::lr_guarded<Payload>::shared_handle> mine; { std::lock_guard<std::mutex> lk(mb_m); mine.swap(mailbox); } mine.clear(); }
                g.modify([&](Payload& p) { p.push_back(t); }); mods++;
            }
            else { auto h = g.lock_shared(); size_t n = h->size(); long s = 0; for (int v : *h) s += v; jitter(op.a); if (h->size() != n) F.report("unstable-read", "lr_guarded value changed under a held handle"); keep(s); }
        }
        { std::vector<lg::lr_guarded<Payload>::shared_handle> mine; { std::lock_guard<std::mutex> lk(mb_m); mine.swap(mailbox); } mine.clear(); }      // before finishing
    });
    mailbox.clear();                                    // every handle is released now (on this thread): a writer must get through
    g.modify([&](Payload& p) { p.push_back(-1); }); mods++;
    g.modify([&](Payload& p) { p.push_back(-1); }); mods++;
    auto h = g.lock_shared();
    if ((long)h->size() != mods.load()) F.report("final-value", "lr_guarded lost a modification");
}

// trivially copyable payloads on the lock wrappers and the left-right / rcu structures
void sj_pod_mix(const vh::Case& c, Failure& F, int reps) {
    lg::guarded<Pod16> g(Pod16{0, 0});
    lg::ordered_guarded<Pod16> og(Pod16{0, 0});
    lg::lr_guarded<Pod16> lr(Pod16{0, 0});
    lg::cow_guarded<Pod16> cow(Pod16{0, 0});
    lg::rcu_guarded<lg::rcu_list<int>> rl;
    { auto h = rl.lock_write(); for (int i = 0; i < 3; ++i) h->push_back(i); }
    auto ok = [&](const Pod16& v, const char* what) { if (v.a != v.b) F.report("torn", std::string(what) + " returned a partially written value"); };
    run_threads((int)c.fibers.size(), [&](int t) {
        uint64_t mine = (uint64_t)(t + 1) << 32;
        for (int r = 0; r < reps * 2; ++r) for (auto& op : c.fibers[(size_t)t]) {
            jitter(op.b & 1);
            ++mine;
            switch (op.code % 12) {
                case 0: ok(g.load(), "guarded::load"); break;
                case 1: g.store(Pod16{mine, mine}); break;
                case 2: { auto h = g.lock(); ok(*h, "guarded handle"); h->a = mine; h->b = mine; break; }
                case 3: ok(og.load(), "ordered_guarded::load"); og.modify([&](Pod16& p) { p.a = mine; p.b = mine; }); break;
                case 4: og.read([&](const Pod16& p) { ok(p, "ordered_guarded::read"); }); og = Pod16{mine, mine}; break;
                case 5: lr.modify([&](Pod16& p) { p.a = mine; p.b = mine; }); break;
                case 6: { auto h = lr.lock_shared(); ok(*h, "lr_guarded handle"); jitter(op.a & 3); ok(*h, "lr_guarded handle (held)"); break; }
                case 7: { auto h = cow.lock(); h->a = mine; h->b = mine; break; }
                case 8: { auto s2 = (op.a & 1) ? cow.try_lock_shared() : cow.lock_shared(); if (s2) ok(*s2, "cow snapshot"); break; }
                case 9: { auto h = rl.lock_read(); long sum = 0; for (auto it = h->begin(); it != h->end(); it++) sum += *it; keep(sum); break; }
                case 10: { auto h = rl.lock_write(); h->push_front(t); break; }
                default: { auto h = rl.lock_write(); auto it = h->begin(); if (it != h->end()) h->erase(it); break; }
            }
        }
    });
}

void sj_cow(const vh::Case& c, Failure& F, int reps) {
    lg::cow_guarded<Payload> g;
    std::atomic<long> commits{0};
    run_threads((int)c.fibers.size(), [&](int t) {
        std::vector<lg::cow_guarded<Payload>::shared_handle> kept;
        for (int r = 0; r < reps; ++r) for (auto& op : c.fibers[(size_t)t]) {
            jitter(op.b);
            switch (op.code % 4) {
                case 0: { auto h = g.lock(); h->push_back(t); commits++; break; }
                case 1: { auto h = g.lock(); h->push_back(t); h.cancel(); break; }
                case 2: { auto s = (op.a % 4 == 0) ? g.lock_shared() : (op.a % 4 == 1) ? g.try_lock_shared() : (op.a % 4 == 2) ? g.try_lock_shared_for(std::chrono::microseconds(10)) : g.try_lock_shared_until(std::chrono::steady_clock::now() + std::chrono::microseconds(10));
                          if (!s) { F.report("null-handle", "cow shared acquisition returned null"); break; }
                          size_t n = s->size(); jitter(op.a); if (s->size() != n) F.report("snapshot-changed", "cow snapshot changed"); if (kept.size() < 4) kept.push_back(s); break; }
                default: { for (auto& s : kept) { long x = 0; for (int v : *s) x += v; keep(x); } kept.clear(); break; }
            }
        }
    });
    if ((long)g.lock_shared()->size() != commits.load()) F.report("final-value", "cow_guarded lost a commit");
}

void sj_deferred(const vh::Case& c, Failure& F, int reps) {
    lg::deferred_guarded<Payload> g;
    std::atomic<long> subs{0};
    run_threads((int)c.fibers.size(), [&](int t) {
        for (int r = 0; r < reps; ++r) for (auto& op : c.fibers[(size_t)t]) {
            jitter(op.b);
            switch (op.code % 4) {
                case 0: g.modify_detach([t](Payload& p) { p.push_back(t); }); subs++; break;
                case 1: { auto f = g.modify_async([t](Payload& p) { p.push_back(t); return (int)p.size(); }); subs++; (void)f; break; }
                case 2: { auto h = g.lock_shared(); long s = 0; for (int v : *h) s += v; jitter(op.a); keep(s); break; }
                default: { auto h = g.try_lock_shared(); if (h) keep(h->size()); break; }
            }
        }
    });
    auto h = g.lock_shared();
    if ((long)h->size() != subs.load()) F.report("stranded", "deferred_guarded did not apply every submitted modification after quiescence");
}

void sj_rcu(const vh::Case& c, Failure& F, int reps) {
    lg::rcu_guarded<lg::rcu_list<std::string>> g;
    { auto h = g.lock_write(); for (int i = 0; i < 3; ++i) h->push_back("a-string-long-enough-to-be-heap-allocated-" + std::to_string(i)); }
    run_threads((int)c.fibers.size(), [&](int t) {
        for (int r = 0; r < reps; ++r) for (auto& op : c.fibers[(size_t)t]) {
            jitter(op.b);
            switch (op.code % 5) {
                case 0: { auto h = g.lock_read(); size_t n = 0; for (auto it = h->begin(); it != h->end(); ++it) { n += it->size(); jitter(op.a & 1); } keep(n); break; }
                case 1: { auto h = g.lock_write(); h->push_back("pushed-by-a-writer-thread-long-string-" + std::to_string(t)); break; }
                case 2: { auto h = g.lock_write(); h->emplace_front("emplaced-at-the-front-long-string-" + std::to_string(t)); break; }
                case 3: { auto h = g.lock_write(); auto it = h->begin(); for (int k = 0; k < op.a % 3 && it != h->end(); ++k) ++it; if (it != h->end()) h->erase(it); break; }
                default: { auto h = g.lock_read(); keep(h->begin()); break; }
            }
        }
    });
    (void)F;
}

void sj_atomic(const vh::Case& c, Failure& F, int reps) {
    lg::atomic_guarded<std::string> g(std::string("initial-value-long-enough-for-the-heap"));
    run_threads((int)c.fibers.size(), [&](int t) {
        for (int r = 0; r < reps; ++r) for (auto& op : c.fibers[(size_t)t]) {
            jitter(op.b);
            std::string mine = "value-written-by-thread-" + std::to_string(t) + "-long-enough-for-the-heap";
            switch (op.code % 5) {
                case 0: { std::string s = g.load(); if (s.size() < 20) F.report("torn", "atomic_guarded load returned a torn string"); break; }
                case 1: g.store(mine); break;
                case 2: { std::string old = g.exchange(mine); if (old.size() < 20) F.report("torn", "exchange returned a torn string"); break; }
                case 3: { std::string e = g.load(); g.compare_exchange(e, mine); break; }
                default: g = mine; break;
            }
        }
    });
}

void sj_atomic_pod(const vh::Case& c, Failure& F, int reps) {
    lg::atomic_guarded<Pod16> g(Pod16{0, 0});
    run_threads((int)c.fibers.size(), [&](int t) {
        uint64_t mine = (uint64_t)(t + 1) << 32;
        for (int r = 0; r < reps * 4; ++r) for (auto& op : c.fibers[(size_t)t]) {
            jitter(op.b & 1);
            ++mine;
            switch (op.code % 5) {
                case 0: { Pod16 v = g.load(); if (v.a != v.b) F.report("torn", "atomic_guarded load returned a partially written value"); break; }
                case 1: g.store(Pod16{mine, mine}); break;
                case 2: { Pod16 old = g.exchange(Pod16{mine, mine}); if (old.a != old.b) F.report("torn", "exchange returned a partially written value"); break; }
                case 3: { Pod16 e = g.load(); if (e.a != e.b) F.report("torn", "load returned a partially written value"); g.compare_exchange(e, Pod16{mine, mine}); if (e.a != e.b) F.report("torn", "compare_exchange reported a partially written value"); break; }
                default: { Pod16 v = static_cast<Pod16>(g); if (v.a != v.b) F.report("torn", "conversion returned a partially written value"); g = Pod16{mine, mine}; break; }
            }
        }
    });
}

void sj_prims(const vh::Case& c, Failure& F, int reps) {
    int n = (int)c.fibers.size();
    for (int r = 0; r < reps; ++r) {
        gc::Barrier bar((size_t)n);
        gc::Latch latch(n);
        gc::TriggerVariable tv;
        std::vector<int> plain((size_t)n, 0), plain2((size_t)n, 0);          // plain data published through the primitives (one array per phase)
        int trig_data = 0;
        run_threads(n, [&](int t) {
            const auto& ops = c.fibers[(size_t)t];
            jitter(ops.empty() ? 0 : ops[0].b);
            plain[(size_t)t] = r + 1;
            bar.wait();
            for (int q = 0; q < n; ++q) if (plain[(size_t)q] != r + 1) F.report("publication", "data written before Barrier::wait is not visible after it");
            jitter(ops.size() > 1 ? ops[1].b : 0);
            plain2[(size_t)t] = r + 2;
            latch.arrive_and_wait();
            for (int q = 0; q < n; ++q) if (plain2[(size_t)q] != r + 2) F.report("publication", "data written before Latch::arrive is not visible after wait");
            if (t == 0) { tv.activate(); jitter(ops.size() > 2 ? ops[2].b : 0); trig_data = r + 3; tv.trigger(); }
            else { tv.waitActivation(); tv.wait(); if (trig_data != r + 3) F.report("publication", "data written before trigger() is not visible after wait()"); }
        });
    }
}

struct DDObj { std::vector<int> v; explicit DDObj(int i) : v(8, i) {} ~DDObj() { v.clear(); } };
void sj_dd(const vh::Case& c, Failure& F, int reps) {
    std::atomic<long> cb{0};
    {
        gc::DelayedDestructor<DDObj> dd([&](std::shared_ptr<DDObj>& p) { cb += (long)p->v.size(); });
        run_threads((int)c.fibers.size(), [&](int t) {
            std::vector<std::shared_ptr<DDObj>> mine;
            for (int r = 0; r < reps; ++r) for (auto& op : c.fibers[(size_t)t]) {
                jitter(op.b);
                switch (op.code % 5) {
                    case 0: dd.addObjectsToBeDestroyed(std::make_shared<DDObj>(t)); break;
                    case 1: { auto p = std::make_shared<DDObj>(t); mine.push_back(p); dd.addObjectsToBeDestroyed(p); break; }
                    case 2: if (!mine.empty()) mine.pop_back(); break;
                    case 3: keep(dd.destroyObjects()); break;
                    default: keep(dd.size()); break;
                }
            }
        });
    }
    (void)F;
}

struct SObj { std::vector<int> v; explicit SObj(int i) : v(4, i) {} };
void sj_soh(const vh::Case& c, Failure& F, int reps) {
    gc::SearchableObjectHolder<SObj, int> soh;
    static const char* names[] = {"a", "b", "c", "d"};
    run_threads((int)c.fibers.size(), [&](int t) {
        for (int r = 0; r < reps; ++r) for (auto& op : c.fibers[(size_t)t]) {
            jitter(op.b);
            const char* n1 = names[op.a % 4]; const char* n2 = names[(op.a / 4) % 4];
            switch (op.code % 10) {
                case 9: soh.addType(n1, op.b % 3); break;
                case 0: soh.addObject(n1, std::make_shared<SObj>(t)); break;
                case 1: soh.addObject(n1, std::make_shared<SObj>(t), op.b % 3); break;
                case 2: soh.removeObject(std::string(n1)); break;
                case 3: soh.removeObject([t](const std::shared_ptr<SObj>& p) { return p->v[0] == t; }); break;
                case 4: { auto p = soh.findObject(std::string(n1)); if (p && p->v.size() != 4) F.report("dead-object", "object returned by findObject is broken"); break; }
                case 5: { auto p = soh.findObject([](const std::shared_ptr<SObj>& q) { return q->v[0] >= 0; }); if (p) keep(p->v[0]); break; }
                case 6: soh.copyObject(n1, n2); break;
                case 7: { auto v = soh.getObjects(); for (auto& p : v) keep(p->v.size()); break; }
                default: switch (op.a % 3) {
                             case 0: keep(soh.checkObjectType(n1, op.b % 3)); break;
                             case 1: keep(soh.empty()); break;
                             default: keep(soh.findObject([](const std::shared_ptr<SObj>&) { return true; }, op.b % 3)); break;
                         } break;
            }
        }
    });
    for (auto n : names) soh.removeObject(std::string(n));
}

void sj_dobj(const vh::Case& c, Failure& F, int reps) {
    for (int r = 0; r < std::max(1, reps / 4); ++r) {
        std::vector<std::future<std::string>> futs((size_t)c.fibers.size() * 4);
        {
            gc::DelayedObjects<std::string> d;
            run_threads((int)c.fibers.size(), [&](int t) {
                int own = 0;
                for (int pass = 0; pass < 6; ++pass) for (auto& op : c.fibers[(size_t)t]) {      // several passes: the threads' calls must overlap in time
                    jitter(op.b);
                    int key = (op.a + pass) % ((int)c.fibers.size() * 4);
                    switch (op.code % 6) {
                        case 0: if (own < 4) { int k = t * 4 + own++; futs[(size_t)k] = (k & 1) ? d.getFuture("key" + std::to_string(k)) : d.getFuture(k); } break;
                        case 1: if (op.b & 2) { const std::string lv("an-lvalue-that-is-long-enough-to-allocate"); if (key & 1) d.setDelayedValue("key" + std::to_string(key), lv); else d.setDelayedValue(key, lv); }     // copy overloads
                                else if (key & 1) d.setDelayedValue("key" + std::to_string(key), std::string("a-value-that-is-long-enough-to-allocate")); else d.setDelayedValue(key, std::string("a-value-that-is-long-enough-to-allocate")); break;
                        case 2: d.fulfillAllPromises("fulfil-value-that-is-long-enough-to-allocate"); break;
                        case 3: switch (op.b % 4) {      // exactly one query per operation: a query that forgot the lock stays unordered with the writers
                                    case 0: keep(d.isRecognized(key)); break;
                                    case 1: keep(d.isRecognized("key" + std::to_string(key))); break;
                                    case 2: keep(d.isCompleted(key)); break;
                                    default: keep(d.isCompleted("key" + std::to_string(key))); break;
                                } break;
                        case 4: if (key & 1) d.finishedWithValue("key" + std::to_string(key)); else d.finishedWithValue(key); break;
                        default: { int k = t * 4; if (futs[(size_t)k].valid() && futs[(size_t)k].wait_for(std::chrono::seconds(0)) == std::future_status::ready) { try { keep(futs[(size_t)k].get()); } catch (const std::future_error&) { F.report("future-error", "future_error from a DelayedObjects future"); } } break; }
                    }
                }
            });
        }
        for (auto& f : futs) if (f.valid()) { try { if (f.wait_for(std::chrono::seconds(5)) != std::future_status::ready) F.report("future-hang", "future not ready after destruction"); else keep(f.get()); } catch (const std::future_error&) { F.report("future-error", "future_error after destruction"); } }
    }
}

void sj_tripwire(const vh::Case& c, Failure& F, int reps) {
    for (int r = 0; r < reps; ++r) {
        auto line = gc::make_tripline();
        int datum = 0;
        run_threads((int)c.fibers.size(), [&](int t) {
            const auto& ops = c.fibers[(size_t)t];
            jitter(ops.empty() ? 0 : ops[0].b);
            if (t == 0) { auto trig = std::make_unique<gc::TripWireTrigger>(line); auto moved = std::make_unique<gc::TripWireTrigger>(std::move(*trig)); trig.reset(); datum = r + 1; moved.reset(); }
            else { gc::TripWireDetector d(line); for (int k = 0; k < 2000; ++k) { if (d.isTripped()) { if (datum != r + 1) F.report("publication", "data written before the trip is not visible after observing it"); break; } std::this_thread::yield(); } }
        });
    }
}

// indexed lines: every repetition uses an index nobody in this process has touched yet, and its first users (a trigger in one thread,
// detectors in the others) arrive concurrently
std::atomic<unsigned> g_next_index{0};
void sj_tripwire_indexed(const vh::Case& c, Failure& F, int reps) {
    for (int r = 0; r < reps; ++r) {
        unsigned idx = g_next_index.fetch_add(1);
        if (idx >= 60000) return;
        std::atomic<bool> trigger_destroyed{false};
        int datum = 0;
        run_threads((int)c.fibers.size(), [&](int t) {
            const auto& ops = c.fibers[(size_t)t];
            jitter(ops.empty() ? 0 : ops[0].b);
            if (t == 0) { { gc::TripWireTrigger trig(idx); datum = r + 1; } trigger_destroyed.store(true); }
            else {
                gc::TripWireDetector d(idx);
                while (!trigger_destroyed.load()) std::this_thread::yield();
                if (!d.isTripped()) F.report("not-tripped", "a detector on an indexed line reports false after the trigger on that line was destroyed");
                else if (datum != r + 1) F.report("publication", "data written before the trip is not visible after observing it");
            }
        });
        gc::TripWireDetector late(idx);
        if (!late.isTripped()) F.report("not-tripped", "a new detector on an indexed line reports false after the trigger on that line was destroyed");
        bool threw = false;
        try { gc::TripWireDetector bad(60000u + (unsigned)r); (void)bad; } catch (const std::out_of_range&) { threw = true; }
        if (!threw) F.report("index-accepted", "an out-of-range index was accepted");
    }
}

vh::Outcome run_rt(const vh::Case& c0, int only_subject) {
    vh::Outcome out;
    vh::Case c = c0;
    // drop empty fibers: every thread has something to do; need at least 2 threads
    c.fibers.erase(std::remove_if(c.fibers.begin(), c.fibers.end(), [](const std::vector<vh::Op>& f) { return f.empty(); }), c.fibers.end());
    if (c.fibers.size() < 2) { out.labels.push_back("fewer-than-2-threads"); return out; }
    int sj = only_subject >= 0 ? only_subject : (c.cfg.empty() ? 0 : c.cfg[0] % SJ_N);
    int variant = c.cfg.size() > 1 ? c.cfg[1] : 0;
    int reps = 6 + (c.cfg.size() > 2 ? c.cfg[2] % 3 : 0) * 12;
    // "solo" threads: the last one (or two) threads repeat their first operation only.  A thread that calls a single method never takes
    // the wrapper's lock through another method, so a method that forgot the lock is unordered with every writer for the whole run
    // (otherwise the thread's own neighbouring locked calls order most of its accesses and hide the omission from the race detector).
    int solo = c.cfg.size() > 3 ? c.cfg[3] % 3 : 0;
    for (int k = 0; k < solo && k + 1 < (int)c.fibers.size(); ++k) { auto& f = c.fibers[c.fibers.size() - 1 - (size_t)k]; for (auto& o : f) o = f[0]; }
    Failure F;
    CaseTimer timer;
    switch (sj) {
        case SJ_GUARDED: if (variant & 1) sj_guarded<rtstd::timed_mutex>(c, F, reps); else sj_guarded<std::mutex>(c, F, reps); break;
        case SJ_SHARED: if (variant & 1) sj_shared<rtstd::shared_timed_mutex>(c, F, reps); else sj_shared<std::shared_mutex>(c, F, reps); break;
        case SJ_ORDERED: if (variant & 1) sj_pod_mix(c, F, reps); else sj_ordered(c, F, reps); break;
        case SJ_LR: sj_lr(c, F, reps); break;
        case SJ_COW: sj_cow(c, F, reps); break;
        case SJ_DEFERRED: sj_deferred(c, F, reps); break;
        case SJ_RCU: sj_rcu(c, F, reps); break;
        case SJ_ATOMIC: if (variant & 1) sj_atomic_pod(c, F, reps); else sj_atomic(c, F, reps); break;
        case SJ_PRIMS: sj_prims(c, F, reps); break;
        case SJ_DD: sj_dd(c, F, reps); break;
        case SJ_SOH: sj_soh(c, F, reps); break;
        case SJ_DOBJ: sj_dobj(c, F, reps); break;
        default: if (variant & 1) sj_tripwire_indexed(c, F, std::min(reps, 8)); else sj_tripwire(c, F, reps); break;
    }
    if (F.set.load()) { out.res.violation = true; out.res.kind = F.kind; out.res.msg = F.msg; }
    out.labels.push_back(std::string("subject=") + sjname[sj]);
    out.labels.push_back("threads=" + std::to_string(c.fibers.size()));
    if (solo) out.labels.push_back("single-method-threads=" + std::to_string(solo));
    out.nontrivial = true;      // every case ran >= 2 real threads concurrently behind a start gate
    out.sig = (uint64_t)sj * 131 + (uint64_t)reps;
    out.res.trace_hash = (uint64_t)sj;
    return out;
}

vh::GenSpec spec(bool th) {
    vh::GenSpec g; g.nfibers = 4; g.max_ops = th ? 6 : 4; g.ncodes = 36; g.amax = 16; g.bmax = 6; g.cfg_max = {SJ_N, 2, 3, 3}; g.sequential = true; g.aux_len = 1;
    return g;
}
const char* RULE = "generated multi-threaded client programs (2-4 real threads behind a start gate, 6-30 repetitions, generated busy-wait jitter) over every wrapper and primitive with heap-backed "
                   "payloads, executed under ThreadSanitizer (or ASan+UBSan); every executed case is counted non-trivial (>= 2 threads ran concurrently); distinct = (program, subject) hash";
vh::Register r_all("RT", spec(false), spec(true), [](const vh::Case& c) { return run_rt(c, -1); }, RULE);
vh::Register r_dd("RTdd", spec(false), spec(true), [](const vh::Case& c) { return run_rt(c, SJ_DD); }, RULE);
vh::Register r_soh("RTsoh", spec(false), spec(true), [](const vh::Case& c) { return run_rt(c, SJ_SOH); }, RULE);
vh::Register r_dobj("RTdobj", spec(false), spec(true), [](const vh::Case& c) { return run_rt(c, SJ_DOBJ); }, RULE);
vh::Register r_cow("RTcow", spec(false), spec(true), [](const vh::Case& c) { return run_rt(c, SJ_COW); }, RULE);
vh::Register r_rcu("RTrcu", spec(false), spec(true), [](const vh::Case& c) { return run_rt(c, SJ_RCU); }, RULE);
vh::Register r_at("RTatomic", spec(false), spec(true), [](const vh::Case& c) { return run_rt(c, SJ_ATOMIC); }, RULE);
vh::Register r_tw("RTtw", spec(false), spec(true), [](const vh::Case& c) { return run_rt(c, SJ_TRIPWIRE); }, RULE);
vh::Register r_lr("RTlr", spec(false), spec(true), [](const vh::Case& c) { return run_rt(c, SJ_LR); }, RULE);

}  // namespace
