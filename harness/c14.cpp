// Target C14: read acquisitions on lr_guarded, cow_guarded and rcu_guarded/rcu_list never wait for writers.
// A writer fiber is frozen after k of its own visible steps (k generated over the whole length of the operation); a reader then
// performs its acquisition solo and must finish within a fixed step bound without executing a blocking operation.  Afterwards the
// writer is thawed (optionally while the reader still holds its handle) and must complete once the handle is released.
#include "common.hpp"

namespace {

enum WOp { W_LR_MODIFY, W_COW_COMMIT, W_COW_LOCK, W_RCU_PUSH_FRONT, W_RCU_PUSH_BACK, W_RCU_ERASE, W_NOPS };
const char* wname[] = {"lr.modify", "cow.commit", "cow.lock", "rcu.push_front", "rcu.push_back", "rcu.erase"};

vh::Outcome run_c14(const vh::Case& c) {
    reset_case_globals();
    vrt::tstats().dtor_hb_exempt = true;
    vh::Outcome out;
    int wop = c.cfg.size() > 0 ? c.cfg[0] % W_NOPS : 0;
    long k = c.cfg.size() > 1 ? c.cfg[1] : 0;              // freeze point (own visible steps of the writer)
    bool hold_across_thaw = c.cfg.size() > 2 && c.cfg[2] == 1;
    bool relay = c.cfg.size() > 2 && c.cfg[2] == 2 && wop == W_LR_MODIFY;   // two readers keep overlapping handles alive until the writer is done
    int nreaders = 1 + (c.cfg.size() > 3 ? c.cfg[3] % 2 : 0);
    int rvariant = c.cfg.size() > 4 ? c.cfg[4] % 4 : 0;
    bool frozen_inside = false, writer_waited = false, reader_blocking_ops = false;
    using LR = lg::lr_guarded<Tracked>;
    using COW = lg::cow_guarded<Tracked>;
    using List = lg::rcu_list<Tracked, vstd::mutex, vrt::QAlloc<Tracked>>;
    using RCU = lg::rcu_guarded<List>;
    using ListS = lg::rcu_list<Tracked, vstd::mutex, vrt::QAllocS<Tracked>>;      // stateful allocator (is_always_equal == false)
    using RCUS = lg::rcu_guarded<ListS>;
    bool stateful_alloc = c.cfg.size() > 5 && c.cfg[5] == 1;

    out.res = vrt::run(c.sched, [&] {
        LR lr(uint64_t(1));
        COW cow(uint64_t(1));
        RCU rl;
        RCUS rls{vrt::QAllocS<Tracked>(3)};
        { auto h = rl.lock_write(); for (int i = 0; i < 3; ++i) h->push_back(Tracked(uint64_t(10 + i))); }
        { auto h = rls.lock_write(); for (int i = 0; i < 3; ++i) h->push_back(Tracked(uint64_t(10 + i))); }
        auto rcu_write = [&](auto& L) {
            switch (wop) {
                case W_RCU_PUSH_FRONT: { auto h = L.lock_write(); h->push_front(Tracked(uint64_t(20))); break; }
                case W_RCU_PUSH_BACK: { auto h = L.lock_write(); h->emplace_back(uint64_t(21)); break; }
                default: { auto h = L.lock_write(); auto it = h->begin(); ++it; h->erase(it); break; }
            }
        };
        // (the handle stays in this frame while `hold` runs: returning a named handle would rely on NRVO, and rcu_guarded's handles are
        // implicitly copyable - a copy of a handle that was already used releases the same registration twice; clang does not elide here)
        auto rcu_read = [&](auto& L, auto&& hold) {
            auto h = L.lock_read();
            int n = 0;
            for (auto it = h->begin(); it != h->end(); ++it) { vrt::check_live_addr(&*it, "iterator dereference"); (void)it->read(); ++n; }
            if (n < 2) vrt::fail("traversal-short", "a solo traversal saw fewer elements than are stably in the list");
            hold();
        };
        bool writer_done = false;
        bool release_readers = false;
        int readers_inside = 0;
        int writer = vrt::spawn([&] {
            switch (wop) {
                case W_LR_MODIFY: lr.modify([](Tracked& t) { t.or_bits(2); }); break;
                case W_COW_COMMIT: { auto h = cow.lock(); h->or_bits(2); h.reset(); break; }
                case W_COW_LOCK: { auto h = cow.lock(); h->or_bits(2); h.cancel(); break; }
                default: if (stateful_alloc) rcu_write(rls); else rcu_write(rl); break;
            }
            writer_done = true;
        });
        vrt::freeze_after(writer, k);
        // let the writer run until it freezes (or finishes)
        int st0 = vrt::join_bounded(writer, 2000);
        if (st0 == 2) vrt::fail("writer-stuck", "the writer alone did not finish or freeze within the step bound");
        frozen_inside = !writer_done && vrt::is_frozen(writer);
        if (relay) {
            // A stream of overlapping readers: at every moment at least one shared handle is held, yet every handle is released after a
            // bounded time.  The writer must still complete (it may only wait for handles held when it flipped), otherwise the readers
            // relay forever and the livelock detector fires.
            int ready = 0, token = 0;
            for (int r = 0; r < 2; ++r)
                vrt::spawn([&, r] {
                    std::optional<LR::shared_handle> h;
                    h.emplace(lr.lock_shared());
                    ready++;
                    while (ready < 2) vrt::yield_now();
                    while (!writer_done) {
                        if (token == r) { h.reset(); h.emplace(lr.lock_shared()); (void)(*h)->read(); token = 1 - r; }
                        else vrt::yield_now();
                    }
                });
            while (ready < 2) vrt::yield_now();
            vrt::thaw(writer);
            vrt::join_all();
            writer_waited = true;
            return;
        }
        // readers acquire solo while the writer is frozen
        std::vector<int> rids;
        for (int r = 0; r < nreaders; ++r) {
            rids.push_back(vrt::spawn([&, r] {
                long b0 = vrt::me().blocking_ops;
                auto acquired = [&] {
                    if (vrt::me().blocking_ops != b0) reader_blocking_ops = true;      // recorded as a label only: the deciding oracle is completion while the writer is frozen
                    readers_inside++;
                    if (hold_across_thaw) { while (!release_readers) vrt::yield_now(); }
                    readers_inside--;
                };
                if (wop == W_LR_MODIFY) {
                    auto h = rvariant == 0 ? lr.lock_shared() : rvariant == 1 ? lr.try_lock_shared() : rvariant == 2 ? lr.try_lock_shared_for(std::chrono::milliseconds(1)) : lr.try_lock_shared_until((std::chrono::steady_clock::now() + std::chrono::milliseconds(50)));
                    if (!h) vrt::fail("null-handle", "lr_guarded shared acquisition returned null");
                    (void)h->read();
                    acquired();
                } else if (wop == W_COW_COMMIT || wop == W_COW_LOCK) {
                    auto s = rvariant == 0 ? cow.lock_shared() : rvariant == 1 ? cow.try_lock_shared() : rvariant == 2 ? cow.try_lock_shared_for(std::chrono::milliseconds(1)) : cow.try_lock_shared_until((std::chrono::steady_clock::now() + std::chrono::milliseconds(50)));
                    if (!s) vrt::fail("null-handle", "cow_guarded shared acquisition returned null");
                    (void)s->read();
                    acquired();
                } else {
                    if (stateful_alloc) rcu_read(rls, acquired);        // release (which may reclaim) also happens while the writer may still be frozen
                    else rcu_read(rl, acquired);
                }
                (void)r;
            }));
        }
        if (!hold_across_thaw) {
            for (int id : rids) {
                int st = vrt::join_bounded(id, 400);
                if (st != 0) vrt::fail("reader-blocked", std::string("a reader did not complete its read acquisition while a writer was suspended at step ") + std::to_string(k) + " of " + wname[wop] + (st == 1 ? " (blocked)" : " (spinning)"));
            }
            vrt::thaw(writer);
        } else {
            // wait until every reader is inside (bounded), then let the writer run against held handles
            long guard = 0;
            while (readers_inside < nreaders && ++guard < 600) vrt::yield_now();
            if (readers_inside < nreaders) vrt::fail("reader-blocked", std::string("a reader did not complete its read acquisition while a writer was suspended at step ") + std::to_string(k) + " of " + wname[wop]);
            vrt::thaw(writer);
            // The readers release when the writer has executed a generated number r of its own visible steps since it was thawed
            // (r in 0..199, enumerated by the enum-cfg stage): the release can land at every point of the writer's wait, including
            // back-off paths (spin for a while, then park on a condition variable).
            long r = c.cfg.size() > 6 ? c.cfg[6] % 200 : 60;
            long base = vrt::rt().fibers[(size_t)writer]->own_steps;
            long polls = 0;
            while (!vrt::is_done(writer) && vrt::rt().fibers[(size_t)writer]->own_steps - base < r && ++polls < 4000) vrt::yield_now();
            int st = vrt::is_done(writer) ? 0 : 2;
            if (st != 0) writer_waited = true;           // allowed: a writer may wait for held read handles
            release_readers = true;
        }
        vrt::join_all();                                  // deadlock / livelock here = writer never completes after release
        if (!writer_done) vrt::fail("writer-incomplete", "the writer did not complete after the readers released");
    });
    out.labels.push_back(std::string("op=") + wname[wop]);
    if (frozen_inside) out.labels.push_back("frozen-inside-op");
    if (writer_waited) out.labels.push_back("writer-waited-for-reader");
    if (hold_across_thaw) out.labels.push_back("held-across-thaw");
    if (relay) out.labels.push_back("reader-relay");
    if (reader_blocking_ops) out.labels.push_back("reader-executed-a-blocking-op");
    if (stateful_alloc && wop >= W_RCU_PUSH_FRONT) out.labels.push_back("stateful-allocator");
    out.nontrivial = frozen_inside || writer_waited;
    out.sig = (uint64_t)wop * 1000 + (uint64_t)k;
    return out;
}

vh::GenSpec spec(bool th) {
    vh::GenSpec g; g.nfibers = 1; g.max_ops = 1; g.ncodes = 1; g.amax = 1; g.bmax = 1;
    g.cfg_max = {W_NOPS, 48, 3, 2, 4, 2, 200};
    g.sched_len = th ? 96 : 64; g.aux_len = 12; g.aux_density = 35;
    return g;
}
vh::Register r("C14", spec(false), spec(true), run_c14,
               "writer op in {lr.modify, cow commit, cow lock+cancel, rcu push_front, push_back, erase} frozen after k in 0..47 of its own visible steps; 1-2 readers then acquire (lock_shared / try forms / "
               "lock_read + full traversal) solo, optionally keeping the handle while the writer is thawed; non-trivial = the writer was frozen strictly inside its operation, or it had to wait for a held handle");

}  // namespace
