// Family "locks": guarded, guarded_opt, shared_guarded, shared_guarded_opt, ordered_guarded over the four mutex types.
// Targets: C01 (exclusive side), C02 (readers vs writers, readers share), C08 (handle truthiness / life cycle / disabled
// mode / bounded blocking), C15g (whole-object load/store/assignment as an atomic register on guarded-style wrappers).
#include "common.hpp"

namespace {

enum WK { W_GUARDED, W_GOPT, W_SHARED, W_SOPT, W_ORDERED };
enum Prop { P_C01, P_C02, P_C08, P_C15, P_C20 };
struct ScopedInc { int& r; explicit ScopedInc(int& x) : r(x) { ++r; } ~ScopedInc() { --r; } };

template<class M> struct MCaps;
template<> struct MCaps<vstd::mutex> { static constexpr bool timed = false, shared = false; static constexpr const char* name = "mutex"; };
template<> struct MCaps<vstd::timed_mutex> { static constexpr bool timed = true, shared = false; static constexpr const char* name = "timed_mutex"; };
template<> struct MCaps<vstd::shared_mutex> { static constexpr bool timed = false, shared = true; static constexpr const char* name = "shared_mutex"; };
template<> struct MCaps<vstd::shared_timed_mutex> { static constexpr bool timed = true, shared = true; static constexpr const char* name = "shared_timed_mutex"; };

template<WK wk, class M> struct WrapT;
template<class M> struct WrapT<W_GUARDED, M> { using type = lg::guarded<Tracked, M>; static constexpr const char* name = "guarded"; };
template<class M> struct WrapT<W_GOPT, M> { using type = lg::guarded_opt<Tracked, M>; static constexpr const char* name = "guarded_opt"; };
template<class M> struct WrapT<W_SHARED, M> { using type = lg::shared_guarded<Tracked, M>; static constexpr const char* name = "shared_guarded"; };
template<class M> struct WrapT<W_SOPT, M> { using type = lg::shared_guarded_opt<Tracked, M>; static constexpr const char* name = "shared_guarded_opt"; };
template<class M> struct WrapT<W_ORDERED, M> { using type = lg::ordered_guarded<Tracked, M>; static constexpr const char* name = "ordered_guarded"; };

enum OpK {
    O_LOCK, O_TRY_LOCK, O_TRY_LOCK_FOR, O_TRY_LOCK_UNTIL, O_LOAD, O_STORE, O_ASSIGN, O_MODIFY,
    O_LOCK_SHARED, O_TRY_LOCK_SHARED, O_TRY_LOCK_SHARED_FOR, O_TRY_LOCK_SHARED_UNTIL, O_CONST_LOCK, O_READ, O_CAST, O_NKINDS
};
const char* opname[] = {"lock", "try_lock", "try_lock_for", "try_lock_until", "load", "store", "assign", "modify",
                        "lock_shared", "try_lock_shared", "try_lock_shared_for", "try_lock_shared_until", "const_lock", "read", "cast"};

struct St {
    const Tracked* P = nullptr;          // the protected object
    uint64_t model = 0;                  // last value written to P (in execution order)
    bool has_read[vrt::MAXF] = {false};
    uint64_t read_val[vrt::MAXF] = {0};
    int in_try = 0;                      // fibers currently inside a try/timed acquisition
    int shared_alive = 0;                // shared handles currently alive (harness view)
    int excl_alive = 0;
    bool disabled = false;
    int rendezvous_inside = 0;
    std::set<int> kinds_used;
    int fibers_touched = 0;
    bool lbl_try_null = false, lbl_try_ok_after_release = false, lbl_reader_writer_contended = false, lbl_rendezvous = false,
         lbl_two_readers = false, lbl_release_during_timed = false, lbl_overlap_ops = false, lbl_fault_caught = false, lbl_nonpos = false;
    int ops_in_flight = 0;
};
St* S = nullptr;

void hook_read(const Tracked* t, uint64_t v) {
    if (!S || t != S->P || !vrt::rt().cur || S->disabled) return;
    int f = vrt::self();
    S->has_read[f] = true; S->read_val[f] = v;
    if (v != S->model) vrt::fail("stale-value", "a read of the protected object did not see the latest write");
}
void hook_set(const Tracked* t, uint64_t v) {
    if (!S || t != S->P || !vrt::rt().cur || S->disabled) return;
    int f = vrt::self();
    if (S->shared_alive > 0) vrt::fail("write-under-reader", "the protected object was modified while a shared handle was alive");
    if (S->has_read[f] && S->read_val[f] != S->model)
        vrt::fail("lost-update", "a read-modify-write on the protected object was not atomic (another write intervened)");
    S->model = v;
    S->read_val[f] = v;
}

template<WK wk, class M>
vh::Outcome run_locks(const vh::Case& c, Prop prop) {
    using W = typename WrapT<wk, M>::type;
    constexpr bool excl_handle = wk != W_ORDERED;
    constexpr bool timed_excl = excl_handle && MCaps<M>::timed;
    constexpr bool shared_handle = wk == W_SHARED || wk == W_SOPT || wk == W_ORDERED;
    constexpr bool shared_timed = shared_handle && MCaps<M>::timed;
    constexpr bool const_lock = wk == W_SHARED || wk == W_SOPT;
    constexpr bool loadstore = wk == W_GUARDED || wk == W_GOPT || wk == W_ORDERED;
    constexpr bool ordered = wk == W_ORDERED;
    constexpr bool optw = wk == W_GOPT || wk == W_SOPT;
    constexpr bool share_capable = MCaps<M>::shared;

    reset_case_globals();
    St st; S = &st;
    vrt::tstats().hook_read = hook_read; vrt::tstats().hook_set = hook_set;
    bool enabled = !(prop == P_C08 && optw && c.cfg.size() > 1 && c.cfg[1] == 1);
    st.disabled = !enabled;
    bool rendezvous = prop == P_C02 && share_capable && shared_handle && c.cfg.size() > 2 && c.cfg[2] == 1;

    // supported op kinds for this config / property
    std::vector<int> sup;
    auto add = [&](int k, int weight) { for (int i = 0; i < weight; ++i) sup.push_back(k); };
    if (prop == P_C20) {
        if (loadstore) { add(O_LOAD, 2); add(O_STORE, 2); add(O_ASSIGN, 2); }
        if (ordered) { add(O_CAST, 1); add(O_MODIFY, 3); add(O_READ, 2); }
        if (excl_handle) { add(O_LOCK, 1); add(O_TRY_LOCK, 1); }
        if (shared_handle) add(O_LOCK_SHARED, 1);
    } else if (prop == P_C15) {
        if (loadstore) { add(O_LOAD, 3); add(O_STORE, 2); add(O_ASSIGN, 2); if (ordered) { add(O_CAST, 1); add(O_MODIFY, 1); } if (excl_handle) add(O_LOCK, 1); }
    } else {
        if (excl_handle) { add(O_LOCK, 3); add(O_TRY_LOCK, 2); if (timed_excl) { add(O_TRY_LOCK_FOR, 2); add(O_TRY_LOCK_UNTIL, 1); } }
        if (loadstore && prop != P_C08) { add(O_LOAD, 1); add(O_STORE, 1); add(O_ASSIGN, 1); }
        if (ordered) { add(O_MODIFY, 3); if (prop != P_C08) add(O_CAST, 1); }
        if (shared_handle && prop != P_C01) {
            add(O_LOCK_SHARED, 3); add(O_TRY_LOCK_SHARED, 2);
            if (shared_timed) { add(O_TRY_LOCK_SHARED_FOR, 2); add(O_TRY_LOCK_SHARED_UNTIL, 1); }
            if (const_lock) add(O_CONST_LOCK, 1);
            if (ordered) add(O_READ, 2);
        }
    }
    vh::Outcome out;
    if (sup.empty()) { out.labels.push_back("unsupported-config"); return out; }

    out.res = vrt::run(c.sched, [&] {
        W* wp;
        bool rv = ctor_from_rvalue(c);
        if constexpr (optw) wp = rv ? new W(enabled, Tracked(uint64_t(0))) : new W(enabled, uint64_t(0)); else wp = rv ? new W(Tracked(uint64_t(0))) : new W(uint64_t(0));
        std::unique_ptr<W> wown(wp);
        W& w = *wp;
        vrt::MutexCore* core = vrt::rt().mutexes.empty() ? nullptr : vrt::rt().mutexes[0];
        if (!core) vrt::fail("internal", "wrapper created no modelled mutex");
        // a second wrapper of the same type for hand-over-hand handle moves (move-assignment onto a handle that owns a lock)
        W* wp2;
        if constexpr (optw) wp2 = new W(enabled, uint64_t(0)); else wp2 = new W(uint64_t(0));
        std::unique_ptr<W> wown2(wp2);
        W& w2 = *wp2;
        vrt::MutexCore* core2 = vrt::rt().mutexes.size() > 1 ? vrt::rt().mutexes[1] : nullptr;
        if (!core2) vrt::fail("internal", "second wrapper created no modelled mutex");
        bool lifecycles = prop == P_C08 || prop == P_C01 || prop == P_C02;
        // learn the address of the protected object
        if constexpr (excl_handle) { auto h = w.lock(); st.P = &*h; } else { auto h = w.lock_shared(); st.P = &*h; }
        if (!enabled) const_cast<Tracked*>(st.P)->sh.hb_exempt = true;

        auto owns_excl = [&] { return core->owner == vrt::self(); };
        auto owns_shared = [&] { return share_capable ? core->shared_by[vrt::self()] > 0 : core->owner == vrt::self(); };
        auto hold_wait = [&](int b) {
            for (int s = 0; s < (b & 3); ++s) vrt::step();
            if (b & 4) { int guard = 0; while (st.in_try > 0 && ++guard < 100000) vrt::yield_now(); }   // keep holding while someone is inside a try/timed call
        };

        for (size_t i = 0; i < c.fibers.size(); ++i) {
            if (c.fibers[i].empty() && !(rendezvous && i < 2)) continue;
            st.fibers_touched++;
            vrt::spawn([&, i] {
                const auto& ops = c.fibers[i];
                int me = vrt::self();
                if (rendezvous && i < 2) {
                    // two readers must be able to be inside at the same time
                    if constexpr (shared_handle) {
                        auto h = w.lock_shared();
                        st.shared_alive++;
                        st.rendezvous_inside++;
                        (void)h->read();
                        while (st.rendezvous_inside < 2) vrt::yield_now();
                        st.lbl_rendezvous = true;
                        st.shared_alive--;
                    }
                }
                for (size_t k = 0; k < ops.size(); ++k) {
                    const vh::Op& op = ops[k];
                    int kind = sup[(size_t)op.code % sup.size()];
                    st.kinds_used.insert(kind);
                    uint64_t bit = uint64_t(1) << ((i * 8 + k) % 60);
                    st.has_read[me] = false;
                    if (st.ops_in_flight > 0) st.lbl_overlap_ops = true;
                    ScopedInc in_flight_guard(st.ops_in_flight);
                    long mops0 = vrt::me().mutex_ops;
                    long long w0 = vrt::me().waited_ns;
                    long blk0 = vrt::me().blocking_ops;
                    int dsel = (op.b >> 3) & 7;                 // which duration / deadline a timed form gets
                    bool nonpos = dsel >= 4;
                    if (nonpos && (kind == O_TRY_LOCK_FOR || kind == O_TRY_LOCK_UNTIL || kind == O_TRY_LOCK_SHARED_FOR || kind == O_TRY_LOCK_SHARED_UNTIL)) st.lbl_nonpos = true;
                    try {
                    // ---------------------------------------------------------------- exclusive handle ops
                    if (kind == O_LOCK || kind == O_TRY_LOCK || kind == O_TRY_LOCK_FOR || kind == O_TRY_LOCK_UNTIL) {
                        if constexpr (excl_handle) {
                            bool is_try = kind != O_LOCK;
                            bool held_at_call = core->owner >= 0 || core->nshared > 0;
                            long acq0 = core->excl_acqs + core->shared_acqs;
                            if (is_try) st.in_try++;
                            auto h = kind == O_LOCK ? w.lock() : kind == O_TRY_LOCK ? w.try_lock() : [&] {
                                if constexpr (timed_excl) {
                                    if (kind == O_TRY_LOCK_FOR) {
                                        if (nonpos && (op.b & 1)) return w.try_lock_for(std::chrono::duration_cast<std::chrono::hours>(timed_arg(dsel, false)));   // a coarse signed representation
                                        return w.try_lock_for(timed_arg(dsel, false));
                                    }
                                    if (op.b & 1) return w.try_lock_until(std::chrono::system_clock::now() + timed_arg(dsel, true));      // a deadline on another clock
                                    return w.try_lock_until(std::chrono::steady_clock::now() + timed_arg(dsel, true));
                                }
                                else return w.try_lock();
                            }();
                            if (is_try) st.in_try--;
                            if (kind == O_TRY_LOCK_FOR && vrt::me().waited_ns - w0 > 3000000LL) vrt::fail("blocked-beyond-timeout", "try_lock_for(3ms) waited longer than the given time (virtual clock)");
                            if ((kind == O_TRY_LOCK_FOR || kind == O_TRY_LOCK_UNTIL) && nonpos && enabled && vrt::me().blocking_ops != blk0)
                                vrt::fail("blocked-beyond-timeout", std::string(opname[kind]) + " with a non-positive duration / past deadline blocked on the held mutex instead of giving up at once");
                            if (!enabled) {
                                if (!h) vrt::fail("disabled-null", "acquisition returned a null handle although locking is disabled");
                                if (vrt::me().mutex_ops != mops0) vrt::fail("disabled-locked", "a mutex operation was executed although locking is disabled");
                            } else {
                                if (bool(h) != owns_excl())
                                    vrt::fail("handle-truth", std::string(opname[kind]) + ": handle is " + (h ? "non-null" : "null") + " but the caller " + (owns_excl() ? "owns" : "does not own") + " the mutex");
                                (void)held_at_call; (void)acq0;   // a try that fails although the lock looked free is not asserted (the property only ties null to "not obtained")
                                if (!h) st.lbl_try_null = true;
                                if (h && is_try && held_at_call) st.lbl_release_during_timed = true;
                                if (!h && lifecycles && op.a >= 5) {
                                    // unconditional clean-up code: unlock() on a handle that never got the lock must not release anybody's lock
                                    // (the modelled mutex reports an unlock by a non-owner)
                                    h.unlock();
                                    if (h) vrt::fail("unlock-not-null", "null handle became non-null after unlock()");
                                }
                            }
                            if (h) {
                                st.excl_alive++;
                                if (enabled) {
                                    uint64_t r = h->read();
                                    vrt::step();
                                    (*h).set(r | bit);
                                }
                                hold_wait(op.b);
                                st.excl_alive--;
                                int variant = lifecycles ? op.a % 5 : 0;
                                if (variant == 1) {
                                    h.unlock();
                                    if (h) vrt::fail("unlock-not-null", "handle is non-null after unlock()");
                                    if (enabled && owns_excl()) vrt::fail("unlock-not-released", "mutex still owned after handle.unlock()");
                                    vrt::step();
                                    if (op.b & 4) { h.unlock(); if (h) vrt::fail("unlock-not-null", "handle is non-null after a second unlock()"); }   // a repeated unlock() is a no-op (the model flags an unlock by a non-owner)
                                } else if (variant == 2) {
                                    auto h2(std::move(h));
                                    if (!h2) vrt::fail("move-lost", "moved-to handle is null");
                                    if (enabled && !owns_excl()) vrt::fail("move-released", "lock released by moving the handle");
                                    { auto dead(std::move(h)); (void)dead; }       // destroy a moved-from handle first
                                    if (enabled && !owns_excl()) vrt::fail("move-released", "destroying a moved-from handle released the lock");
                                    vrt::step();
                                } else if (variant == 4 && enabled) {
                                    // hand over hand: move-assign a handle on the second wrapper onto this handle, which owns the first lock
                                    auto nxt = w2.lock();
                                    if (!nxt || core2->owner != vrt::self()) vrt::fail("handle-truth", "lock() on the second wrapper did not acquire it");
                                    h = std::move(nxt);
                                    if (!h) vrt::fail("move-lost", "move-assigned handle is null");
                                    if (core2->owner != vrt::self()) vrt::fail("move-released", "the moved lock was released by the move-assignment");
                                    // the handle that was assigned over must not keep its lock behind a null handle
                                    if (!nxt && core->owner == vrt::self()) vrt::fail("null-handle-holds-lock", "after move-assignment the source handle tests false but still holds the target's old lock");
                                    if (bool(nxt) == false || true) { /* truthiness of a moved-from handle is not asserted */ }
                                    vrt::step();
                                    { auto dead(std::move(nxt)); (void)dead; }
                                    if (core->owner == vrt::self()) vrt::fail("not-released", "the lock of a handle that was move-assigned over is still held after every handle that could own it is gone");
                                    h.unlock();
                                    if (core2->owner == vrt::self()) vrt::fail("unlock-not-released", "second wrapper still locked after unlock()");
                                } else if (variant == 3) {
                                    h.unlock();
                                    vrt::step();
                                    h = w.lock();                                   // move-assign onto an unlocked handle
                                    if (!h) vrt::fail("move-lost", "move-assigned handle is null");
                                    if (enabled && !owns_excl()) vrt::fail("handle-truth", "move-assigned handle does not own the lock");
                                    if (enabled) { uint64_t r = h->read(); (*h).set(r | bit); }
                                }
                            }
                        }
                        if (enabled && owns_excl()) vrt::fail("not-released", "mutex still owned after the handle was destroyed");
                    }
                    // ---------------------------------------------------------------- whole-object ops
                    else if (kind == O_LOAD) {
                        if constexpr (loadstore) { Tracked v = w.load(); (void)v; }
                    } else if (kind == O_STORE) {
                        if constexpr (loadstore) { Tracked nv(bit); w.store(nv); }
                    } else if (kind == O_ASSIGN) {
                        if constexpr (ordered) { if (op.a & 4) { w = w2; } else { Tracked nv(bit); w = nv; } }      // also from another wrapper of the same type (its value goes through the conversion operator)
                        else if constexpr (loadstore) { Tracked nv(bit); w = nv; }
                    } else if (kind == O_CAST) {
                        // (guarded / guarded_opt declare `operator T() const` too, but it locks a non-mutable mutex and cannot be instantiated)
                        if constexpr (ordered) { Tracked v = static_cast<Tracked>(w); (void)v; }
                    } else if (kind == O_MODIFY) {
                        if constexpr (ordered) {
                            int ran = 0;
                            if (op.a & 1) { int rv = w.modify([&](Tracked& t) { ran++; vrt::fault_point(vrt::F_FUNCTOR); uint64_t r = t.read(); vrt::step(); t.set(r | bit); vrt::fault_point(vrt::F_FUNCTOR); return 7; }); if (rv != 7) vrt::fail("modify-result", "modify did not return the functor's value"); }
                            else if (op.a & 2) w.modify([&](auto& t) -> void { ran++; vrt::fault_point(vrt::F_FUNCTOR); uint64_t r = t.read(); vrt::step(); t.set(r | bit); vrt::fault_point(vrt::F_FUNCTOR); });   // a generic callable (also invocable with const T&)
                            else w.modify([&](Tracked& t) { ran++; vrt::fault_point(vrt::F_FUNCTOR); uint64_t r = t.read(); vrt::step(); t.set(r | bit); vrt::fault_point(vrt::F_FUNCTOR); });
                            if (ran != 1) vrt::fail("functor-count", "modify() invoked the function " + std::to_string(ran) + " times");
                        }
                    }
                    // ---------------------------------------------------------------- shared ops
                    else if (kind == O_READ) {
                        if constexpr (ordered) {
                            st.shared_alive++;   // inside read() no modification may happen; bracket conservatively inside the functor
                            st.shared_alive--;
                            int ran = 0;
                            if (op.a & 1) { uint64_t rv = w.read([&](const Tracked& t) { ran++; ScopedInc alive(st.shared_alive); vrt::fault_point(vrt::F_FUNCTOR); return t.read(); }); if (rv != st.read_val[me]) vrt::fail("read-result", "read() did not return the function's value"); }
                            else w.read([&](const Tracked& t) { ran++; ScopedInc alive(st.shared_alive); uint64_t a = t.read(); for (int s = 0; s < (op.b & 3); ++s) vrt::step(); vrt::fault_point(vrt::F_FUNCTOR); uint64_t b2 = t.read(); if (a != b2) vrt::fail("unstable-read", "value changed inside read()"); });
                            if (ran != 1) vrt::fail("functor-count", "read() invoked the function " + std::to_string(ran) + " times");
                        }
                    } else {
                        if constexpr (shared_handle) {
                            bool is_try = kind == O_TRY_LOCK_SHARED || kind == O_TRY_LOCK_SHARED_FOR || kind == O_TRY_LOCK_SHARED_UNTIL;
                            bool excl_at_call = core->owner >= 0;
                            long eacq0 = core->excl_acqs;
                            if (is_try) st.in_try++;
                            auto h = [&] {
                                if (kind == O_TRY_LOCK_SHARED) return w.try_lock_shared();
                                if constexpr (shared_timed) {
                                    if (kind == O_TRY_LOCK_SHARED_FOR) {
                                        if (nonpos && (op.b & 1)) return w.try_lock_shared_for(std::chrono::duration_cast<std::chrono::hours>(timed_arg(dsel, false)));
                                        return w.try_lock_shared_for(timed_arg(dsel, false));
                                    }
                                    if (kind == O_TRY_LOCK_SHARED_UNTIL) { if (op.b & 1) return w.try_lock_shared_until(std::chrono::system_clock::now() + timed_arg(dsel, true)); return w.try_lock_shared_until(std::chrono::steady_clock::now() + timed_arg(dsel, true)); }
                                }
                                if constexpr (const_lock) { if (kind == O_CONST_LOCK) return static_cast<const W&>(w).lock(); }
                                return w.lock_shared();
                            }();
                            if (is_try) st.in_try--;
                            if (kind == O_TRY_LOCK_SHARED_FOR && vrt::me().waited_ns - w0 > 3000000LL) vrt::fail("blocked-beyond-timeout", "try_lock_shared_for(3ms) waited longer than the given time (virtual clock)");
                            if ((kind == O_TRY_LOCK_SHARED_FOR || kind == O_TRY_LOCK_SHARED_UNTIL) && nonpos && enabled && vrt::me().blocking_ops != blk0)
                                vrt::fail("blocked-beyond-timeout", std::string(opname[kind]) + " with a non-positive duration / past deadline blocked on the held mutex instead of giving up at once");
                            if (!enabled) {
                                if (!h) vrt::fail("disabled-null", "shared acquisition returned a null handle although locking is disabled");
                                if (vrt::me().mutex_ops != mops0) vrt::fail("disabled-locked", "a mutex operation was executed although locking is disabled");
                            } else {
                                if (bool(h) != owns_shared())
                                    vrt::fail("handle-truth", std::string(opname[kind]) + ": shared handle is " + (h ? "non-null" : "null") + " but the caller " + (owns_shared() ? "holds" : "does not hold") + " the lock");
                                if (share_capable && !h && !excl_at_call && eacq0 == core->excl_acqs)
                                    vrt::fail("reader-blocked-by-reader", std::string(opname[kind]) + " failed although only readers held the lock during the call");
                                if (!h) st.lbl_try_null = true;
                                if (!h && lifecycles && op.a >= 5) { h.unlock(); if (h) vrt::fail("unlock-not-null", "null shared handle became non-null after unlock()"); }
                                if (h && share_capable && core->nshared >= 2) st.lbl_two_readers = true;
                                if (h && excl_at_call) st.lbl_reader_writer_contended = true;
                            }
                            if (h) {
                                st.shared_alive++;
                                uint64_t a = 0, b2 = 0;
                                if (enabled) a = h->read();
                                hold_wait(op.b);
                                if (enabled) b2 = (*h).read();
                                if (a != b2) vrt::fail("unstable-read", "value changed while a shared handle was held");
                                st.shared_alive--;
                                int variant = lifecycles ? op.a % 4 : 0;
                                if (variant == 1) {
                                    h.unlock();
                                    if (h) vrt::fail("unlock-not-null", "shared handle is non-null after unlock()");
                                    if (enabled && owns_shared()) vrt::fail("unlock-not-released", "lock still held after shared handle.unlock()");
                                    vrt::step();
                                } else if (variant == 3 && enabled) {
                                    auto owns2 = [&] { return share_capable ? core2->shared_by[vrt::self()] > 0 : core2->owner == vrt::self(); };
                                    auto nxt = w2.lock_shared();
                                    if (!nxt || !owns2()) vrt::fail("handle-truth", "lock_shared() on the second wrapper did not acquire it");
                                    h = std::move(nxt);
                                    if (!h) vrt::fail("move-lost", "move-assigned shared handle is null");
                                    if (!owns2()) vrt::fail("move-released", "the moved shared lock was released by the move-assignment");
                                    if (!nxt && owns_shared()) vrt::fail("null-handle-holds-lock", "after move-assignment the source shared handle tests false but still holds the target's old lock");
                                    vrt::step();
                                    { auto dead(std::move(nxt)); (void)dead; }
                                    if (owns_shared()) vrt::fail("not-released", "the shared lock of a handle that was move-assigned over is still held after every handle that could own it is gone");
                                    h.unlock();
                                    if (owns2()) vrt::fail("unlock-not-released", "second wrapper still share-locked after unlock()");
                                } else if (variant == 2) {
                                    auto h2(std::move(h));
                                    if (!h2) vrt::fail("move-lost", "moved-to shared handle is null");
                                    if (enabled && !owns_shared()) vrt::fail("move-released", "lock released by moving the shared handle");
                                    { auto dead(std::move(h)); (void)dead; }
                                    if (enabled && !owns_shared()) vrt::fail("move-released", "destroying a moved-from shared handle released the lock");
                                }
                            }
                        }
                        if (enabled && owns_shared()) vrt::fail("not-released", "lock still held after the shared handle was destroyed");
                    }
                    } catch (const vrt::InjectedFault&) {
                        if (prop != P_C20) vrt::fail("escaped-fault", "fault without a plan");
                        st.lbl_fault_caught = true;
                        if (vrt::me().held != 0) vrt::fail("lock-leaked-on-throw", std::string(opname[kind]) + ": a mutex is still held after user code threw");
                    }
                    if (enabled && (kind >= O_LOAD && kind <= O_MODIFY) && core->owner == vrt::self()) vrt::fail("not-released", "mutex still owned after a whole-object operation");
                }
            });
        }
        vrt::join_all();
        vrt::disable_faults();
        // no leaked lock: the main fiber can take the lock in both modes
        if (enabled) {
            if (core->owner >= 0 || core->nshared > 0) vrt::fail("leaked-lock", "the mutex is still held after every client finished");
            if (core2->owner >= 0 || core2->nshared > 0) vrt::fail("leaked-lock", "the second wrapper's mutex is still held after every client finished");
            if constexpr (excl_handle) { auto h = w.try_lock(); if (!h) vrt::fail("leaked-lock", "try_lock fails after every client finished"); }
            else { bool ran = false; w.modify([&](Tracked&) { ran = true; }); if (!ran) vrt::fail("leaked-lock", "modify did not run"); }
            if (st.P->peek() != st.model) vrt::fail("final-value", "final value differs from the last write");
        }
    });
    S = nullptr;
    out.labels.push_back(std::string("cfg=") + WrapT<wk, M>::name + "/" + MCaps<M>::name + (enabled ? "" : "/disabled"));
    if (st.lbl_try_null) out.labels.push_back("try-null");
    if (st.lbl_release_during_timed) out.labels.push_back("try-succeeded-after-wait");
    if (st.lbl_two_readers) out.labels.push_back("two-readers-inside");
    if (st.lbl_rendezvous) out.labels.push_back("rendezvous");
    if (st.lbl_nonpos) out.labels.push_back("non-positive-timeout");
    if (st.lbl_reader_writer_contended) out.labels.push_back("reader-found-writer");
    if (out.res.blocked_events) out.labels.push_back("contended");
    if (out.res.timeouts_fired) out.labels.push_back("timeout-fired");
    bool contended = out.res.blocked_events > 0;
    switch (prop) {
        case P_C01: out.nontrivial = st.fibers_touched >= 2 && contended && st.kinds_used.size() >= 2; break;
        case P_C02: out.nontrivial = st.fibers_touched >= 2 && (st.lbl_rendezvous || st.lbl_two_readers || (contended && st.kinds_used.size() >= 2)); break;
        case P_C08: out.nontrivial = st.fibers_touched >= 2 && (enabled ? (st.lbl_try_null || st.lbl_release_during_timed) : st.lbl_overlap_ops); break;
        case P_C15: out.nontrivial = st.fibers_touched >= 2 && st.lbl_overlap_ops && contended; break;
        case P_C20: out.nontrivial = st.lbl_fault_caught && st.fibers_touched >= 2; break;
    }
    out.sig = (uint64_t)wk * 4 + (uint64_t)(c.cfg.empty() ? 0 : c.cfg[0]);
    return out;
}


// ================================================================================================ plain-old-data payloads
// The wrappers are templates over T: the same guarantees must hold for small trivially copyable payloads, for which a library might be
// tempted to take type-trait dependent short cuts.  Such payloads cannot be instrumented, so the oracle is value based: a holder of an
// exclusive handle (or a modify functor) first writes a *dirty* value (odd), lets others run, checks that it is still there, and writes a
// clean (even) value before releasing; whole-object load / cast / read must only ever see clean, internally consistent values, and
// store / operator= must never land inside a holder's section.
template<class U> struct PodScalar { U v; static PodScalar make(uint64_t x) { PodScalar p; p.v = (U)x; return p; } uint64_t get() const { return (uint64_t)v; } bool consistent() const { return true; } void put(uint64_t x) { v = (U)x; } };
struct Pod16 { uint64_t a, b; static Pod16 make(uint64_t x) { Pod16 p; p.a = x; p.b = x; return p; } uint64_t get() const { return a; } bool consistent() const { return a == b; }
               void put(uint64_t x) { a = x; vrt::step(); b = x; } };
struct Pod3 { unsigned char c[3]; static Pod3 make(uint64_t x) { Pod3 p; p.c[0] = p.c[1] = p.c[2] = (unsigned char)x; return p; } uint64_t get() const { return c[0]; } bool consistent() const { return c[0] == c[1] && c[1] == c[2]; }
              void put(uint64_t x) { c[0] = (unsigned char)x; vrt::step(); c[1] = (unsigned char)x; c[2] = (unsigned char)x; } };
static_assert(std::is_trivially_copyable<PodScalar<uint8_t>>::value && sizeof(PodScalar<uint8_t>) == 1, "one-byte payload");
enum class ByteEnum : uint8_t {};

template<class P> struct PodOps { static P make(uint64_t x) { return P::make(x); } static uint64_t get(const P& p) { return p.get(); } static bool consistent(const P& p) { return p.consistent(); } static void put(P& p, uint64_t x) { p.put(x); } };
template<> struct PodOps<bool> { static bool make(uint64_t x) { return (x & 1) != 0; } static uint64_t get(const bool& p) { return p ? 1 : 0; } static bool consistent(const bool&) { return true; } static void put(bool& p, uint64_t x) { p = (x & 1) != 0; } };
template<> struct PodOps<ByteEnum> { static ByteEnum make(uint64_t x) { return (ByteEnum)(uint8_t)x; } static uint64_t get(const ByteEnum& p) { return (uint8_t)p; } static bool consistent(const ByteEnum&) { return true; } static void put(ByteEnum& p, uint64_t x) { p = (ByteEnum)(uint8_t)x; } };

template<template<class, class> class WT, bool has_handle, bool is_opt, class M, class P>
vh::Outcome run_pod(const vh::Case& c) {
    using W = WT<P, M>;
    using O = PodOps<P>;
    constexpr bool is_bool = std::is_same<P, bool>::value;       // bool: clean = false, dirty = true
    reset_case_globals();
    vh::Outcome out;
    int sections_in_progress = 0; bool lbl_load_during_section = false, lbl_store_during_section = false;
    out.res = vrt::run(c.sched, [&] {
        std::unique_ptr<W> wp;
        if constexpr (is_opt) wp.reset(new W(true, O::make(0))); else wp.reset(new W(O::make(0)));
        W& w = *wp;
        uint64_t next_clean = 2;
        auto clean_value = [&]() -> uint64_t { if (is_bool) return 0; uint64_t v = next_clean; next_clean += 2; if (next_clean > 250) next_clean = 2; return v; };
        auto check_loaded = [&](const P& v, const char* what) {
            if (!O::consistent(v)) vrt::fail("torn-load", std::string(what) + " returned a partially written value");
            if (O::get(v) & 1) vrt::fail("dirty-load", std::string(what) + " returned a value that only exists inside another thread's exclusive section");
        };
        auto section = [&](P& obj, int steps) {
            // the body of an exclusive handle / modify functor
            if (sections_in_progress > 0) vrt::fail("sections-overlap", "two exclusive sections on the same wrapper overlap");
            sections_in_progress++;
            uint64_t before = O::get(obj);
            if (before & 1) vrt::fail("dirty-value", "an exclusive section found another section's in-progress value");
            uint64_t dirty = is_bool ? 1 : (before | 1);
            O::put(obj, dirty);
            for (int s2 = 0; s2 <= steps; ++s2) vrt::step();
            if (O::get(obj) != dirty || !O::consistent(obj)) vrt::fail("write-under-holder", "the protected object changed while an exclusive handle was held");
            O::put(obj, clean_value());
            sections_in_progress--;
        };
        for (size_t i = 0; i < c.fibers.size(); ++i) {
            if (c.fibers[i].empty()) continue;
            vrt::spawn([&, i] {
                for (auto& op : c.fibers[i]) {
                    int kind = op.code % 8;
                    if (kind <= 1) {
                        if constexpr (has_handle) {
                            auto h = (kind == 0 || (op.a & 1)) ? w.lock() : w.try_lock();
                            if (h) section(*h, op.b & 3);
                        } else w.modify([&](P& obj) { section(obj, op.b & 3); });
                    } else if (kind <= 4) {
                        if (sections_in_progress > 0) lbl_load_during_section = true;
                        if constexpr (has_handle) { P v = w.load(); check_loaded(v, "load()"); }
                        else {
                            if (op.a & 1) { P v = w.load(); check_loaded(v, "load()"); }
                            else if (op.a & 2) { P v = static_cast<P>(w); check_loaded(v, "conversion"); }
                            else w.read([&](const P& obj) { P v = obj; vrt::step(); check_loaded(v, "read()"); if (O::get(obj) != O::get(v)) vrt::fail("unstable-read", "value changed inside read()"); });
                        }
                    } else {
                        if (sections_in_progress > 0) lbl_store_during_section = true;
                        P nv = O::make(clean_value());
                        if (kind == 5) w.store(nv); else if (kind == 6) w = nv; else w.store(O::make(clean_value()));
                    }
                    if (vrt::me().held != 0) vrt::fail("lock-leaked", "a mutex is still held after an operation returned");
                }
            });
        }
        vrt::join_all();
        P fin = w.load(); check_loaded(fin, "final load()");
    });
    if (lbl_load_during_section) out.labels.push_back("load-called-during-section");
    if (lbl_store_during_section) out.labels.push_back("store-called-during-section");
    out.nontrivial = lbl_load_during_section || lbl_store_during_section;
    return out;
}

template<class M, class P> vh::Outcome pod_w(const vh::Case& c) {
    switch (c.cfg.size() > 2 ? c.cfg[2] % 3 : 0) {
        case 1: { auto o = run_pod<lg::guarded_opt, true, true, M, P>(c); o.labels.push_back("W=guarded_opt"); return o; }
        case 2: { auto o = run_pod<lg::ordered_guarded, false, false, M, P>(c); o.labels.push_back("W=ordered_guarded"); return o; }
        default: { auto o = run_pod<lg::guarded, true, false, M, P>(c); o.labels.push_back("W=guarded"); return o; }
    }
}
template<class P> vh::Outcome pod_m(const vh::Case& c) {
    switch (c.cfg.size() > 1 ? c.cfg[1] % 4 : 0) {
        case 1: return pod_w<vstd::timed_mutex, P>(c);
        case 2: return pod_w<vstd::shared_mutex, P>(c);
        case 3: return pod_w<vstd::shared_timed_mutex, P>(c);
        default: return pod_w<vstd::mutex, P>(c);
    }
}
vh::Outcome run_pod_any(const vh::Case& c) {
    static const char* pn[] = {"bool", "uint8", "byte-enum", "uint16", "uint32", "uint64", "3-byte struct", "16-byte struct"};
    int sel = c.cfg.empty() ? 0 : c.cfg[0] % 8;
    vh::Outcome o;
    switch (sel) {
        case 0: o = pod_m<bool>(c); break;
        case 1: o = pod_m<PodScalar<uint8_t>>(c); break;
        case 2: o = pod_m<ByteEnum>(c); break;
        case 3: o = pod_m<PodScalar<uint16_t>>(c); break;
        case 4: o = pod_m<PodScalar<uint32_t>>(c); break;
        case 5: o = pod_m<PodScalar<uint64_t>>(c); break;
        case 6: o = pod_m<Pod3>(c); break;
        default: o = pod_m<Pod16>(c); break;
    }
    o.labels.push_back(std::string("T=") + pn[sel]);
    return o;
}
vh::GenSpec pod_spec(bool th) { vh::GenSpec g; g.nfibers = 3; g.max_ops = th ? 5 : 4; g.ncodes = 8; g.amax = 4; g.bmax = 4; g.cfg_max = {8, 4, 3}; g.sched_len = 96; g.aux_len = 8; return g; }
vh::Register rpod("C01p", pod_spec(false), pod_spec(true), run_pod_any,
                  "guarded / guarded_opt / ordered_guarded over plain-old-data payloads (bool, 1/2/4/8-byte scalars, a byte enum, 3- and 16-byte structs) x 4 mutex types: exclusive sections write a dirty "
                  "value, let others run and write a clean one; load / conversion / read must return clean consistent values and no store may land inside a section; "
                  "non-trivial = a load or store was called while a section was in progress");

using RunFn = vh::Outcome (*)(const vh::Case&, Prop);
template<WK wk> constexpr std::array<RunFn, 4> row() {
    return {&run_locks<wk, vstd::mutex>, &run_locks<wk, vstd::timed_mutex>, &run_locks<wk, vstd::shared_mutex>, &run_locks<wk, vstd::shared_timed_mutex>};
}
vh::Outcome dispatch(const vh::Case& c, Prop prop) {
    static const std::array<std::array<RunFn, 4>, 5> table = {row<W_GUARDED>(), row<W_GOPT>(), row<W_SHARED>(), row<W_SOPT>(), row<W_ORDERED>()};
    int cfg = c.cfg.empty() ? 0 : c.cfg[0] % 20;
    if (prop == P_C02) { static const int wmap[3] = {W_SHARED, W_SOPT, W_ORDERED}; return table[(size_t)wmap[(cfg / 4) % 3]][(size_t)cfg % 4](c, prop); }
    if (prop == P_C15 || prop == P_C20) { static const int wmap[3] = {W_GUARDED, W_GOPT, W_ORDERED}; return table[(size_t)wmap[(cfg / 4) % 3]][(size_t)cfg % 4](c, prop); }
    return table[(size_t)cfg / 4][(size_t)cfg % 4](c, prop);
}

vh::GenSpec spec(Prop p, bool thorough) {
    vh::GenSpec g;
    g.nfibers = 4; g.max_ops = thorough ? 6 : 4; g.ncodes = 64; g.amax = 8; g.bmax = 64;
    g.cfg_max = {p == P_C02 || p == P_C15 || p == P_C20 ? 12 : 20, 2, 2};
    if (p == P_C20) { g.fault_max = 10; g.fault_mask = vrt::F_FUNCTOR | vrt::F_COPY | vrt::F_ASSIGN; }
    g.sched_len = thorough ? 160 : 112; g.aux_len = 24;
    return g;
}

vh::Register r1("C01", spec(P_C01, false), spec(P_C01, true), [](const vh::Case& c) { return dispatch(c, P_C01); },
                "generated clients mixing lock/try_lock/try_lock_for/until/load/store/operator=/modify(/cast) on one wrapper (5 wrappers x 4 mutex types) x generated schedule; "
                "non-trivial = >=2 fibers, >=2 distinct method kinds and at least one acquisition found the mutex held; distinct = (config, program, executed interleaving) hash");
vh::Register r2("C02", spec(P_C02, false), spec(P_C02, true), [](const vh::Case& c) { return dispatch(c, P_C02); },
                "generated reader/writer clients on shared_guarded / shared_guarded_opt / ordered_guarded x 4 mutex types, optional two-reader rendezvous for shared-capable mutexes; "
                "non-trivial = a rendezvous completed, two readers were inside together, or a reader and a writer contended");
vh::Register r8("C08", spec(P_C08, false), spec(P_C08, true), [](const vh::Case& c) { return dispatch(c, P_C08); },
                "generated holders/contenders using every try/timed form with handle life cycles (destroy, unlock, move-construct, move-assign), enabled and disabled locking; holders keep "
                "the lock while any contender is inside a try call; non-trivial = a try returned null or succeeded after waiting (enabled), or operations overlapped (disabled)");
vh::Register r15("C15g", spec(P_C15, false), spec(P_C15, true), [](const vh::Case& c) { return dispatch(c, P_C15); },
                 "generated load/store/operator=/cast/modify mixes on guarded, guarded_opt, ordered_guarded; oracle = every read returns the latest write in execution order and every "
                 "read-modify-write is uninterrupted; non-trivial = operations of >=2 fibers overlapped in time and contended on the mutex");

vh::Register r20("C20g", spec(P_C20, false), spec(P_C20, true), [](const vh::Case& c) { return dispatch(c, P_C20); },
                 "generated load/store/operator=/cast/modify/read/lock mixes on guarded, guarded_opt, ordered_guarded with a fault plan (k-th functor call / payload copy / assignment throws); after the throw "
                 "the thread holds no mutex, other threads keep acquiring, the final acquisition succeeds; non-trivial = the fault fired in a program with >=2 fibers");

}  // namespace
