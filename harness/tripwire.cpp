// Family "tripwire": TripWire lines, detectors and triggers (C19), including weak-memory mode for the publication contract.
#include "common.hpp"

// the library's macros are expanded with the same interposition as its headers (their bodies name std:: types)
#define std vstd
DECLARE_TRIPLINE()
DECLARE_INDEXED_TRIPLINES(16)
#undef std

// Access to the private static accessors, to *reset* the process-wide lines between cases (explicit instantiation may name
// private members; nothing in /repo changes).
namespace rob {
template<class Tag, auto F> struct Rob { friend auto steal(Tag) { return F; } };
struct IndexedTag { friend auto steal(IndexedTag); };
struct DefaultTag { friend auto steal(DefaultTag); };
template struct Rob<IndexedTag, &gc::TripWire::getIndexedLine>;
template struct Rob<DefaultTag, &gc::TripWire::getLine>;
inline gc::TriplineType indexed(unsigned i) { return steal(IndexedTag{})(i); }
inline gc::TriplineType deflt() { return steal(DefaultTag{})(); }
}  // namespace rob

namespace {

constexpr int NL = 8;            // lines: fiber f owns lines 2f and 2f+1; line 6 = indexed line 3, line 7 = the declared default line
constexpr unsigned IDX = 3;

vh::Outcome run_tw(const vh::Case& c) {
    reset_case_globals();
    for (unsigned i = 0; i < 16; ++i) rob::indexed(i)->vrt_reset(false);
    rob::deflt()->vrt_reset(false);
    vh::Outcome out;
    bool begun[NL] = {false}, done[NL] = {false};
    bool lbl_seen_true_concurrent = false, lbl_moved = false, lbl_datum_read = false, lbl_oor = false, lbl_shared_det = false, lbl_handover = false; int lbl_repeat = 0;
    int triggers_in_flight = 0;
    out.res = vrt::run(c.sched, [&] {
        std::vector<gc::TriplineType> lines = gc::make_triplines(6);
        gc::TriplineType scratch = gc::make_tripline();
        std::vector<std::unique_ptr<Tracked>> datum;
        for (int l = 0; l < NL; ++l) datum.emplace_back(new Tracked(uint64_t(0)));
        auto make_trigger = [&](int l) -> std::unique_ptr<gc::TripWireTrigger> {
            if (l == 6) return std::make_unique<gc::TripWireTrigger>(IDX);
            if (l == 7) return std::make_unique<gc::TripWireTrigger>();
            return std::make_unique<gc::TripWireTrigger>(lines[(size_t)l]);
        };
        // the user's own handle on an explicit line is handed over to the trigger: from then on only the trigger and the detectors refer to the line
        auto make_trigger_handover = [&](int l) -> std::unique_ptr<gc::TripWireTrigger> {
            return std::make_unique<gc::TripWireTrigger>(std::move(lines[(size_t)l]));
        };
        std::vector<gc::TripWireDetector> shared_det;
        auto make_detector = [&](int l) -> gc::TripWireDetector {
            if (l == 6) return gc::TripWireDetector(IDX);
            if (l == 7) return gc::TripWireDetector();
            if (!lines[(size_t)l]) return shared_det[(size_t)l];               // the user handle is gone: copy an existing detector
            return gc::TripWireDetector(lines[(size_t)l]);
        };
        auto check_untripped_if_unbegun = [&](int l, const char* when) {
            if (begun[l]) return;
            if (make_detector(l).isTripped()) vrt::fail("tripped-without-trigger", std::string("line reports tripped ") + when + " although no armed trigger on it was destroyed");
        };
        // detector objects shared by all fibers (the library itself shares one detector between threads in DelayedDestructor / SearchableObjectHolder)
        for (int l = 0; l < NL; ++l) shared_det.push_back(make_detector(l));
        for (size_t i = 0; i < c.fibers.size() && i < 4; ++i) {
            if (c.fibers[i].empty()) continue;
            vrt::spawn([&, i] {
                bool seen_true[NL] = {false};
                for (auto& op : c.fibers[i]) {
                    int kind = op.code % 8;
                    if (kind <= 2) {
                        // ---------------------------------------------------- trigger life cycle on one of the fiber's own lines
                        int l = (int)i * 2 + (op.a & 1);
                        int variant = op.b % 6;
                        if (l < 6 && !lines[(size_t)l]) continue;                      // the handle was handed over earlier: no further trigger can be attached
                        bool handover = l < 6 && (op.a & 2) && variant != 5 && variant != 4;
                        if (handover) lbl_handover = true;
                        auto a = handover ? make_trigger_handover(l) : make_trigger(l);
                        std::unique_ptr<gc::TripWireTrigger> armed;
                        if (variant == 0 || variant == 4) armed = std::move(a);
                        else if (variant == 1 || variant == 2) {
                            lbl_moved = true;
                            armed = std::make_unique<gc::TripWireTrigger>(std::move(*a));
                            if (variant == 1) { a.reset(); check_untripped_if_unbegun(l, "after destroying a moved-from trigger"); }
                        } else if (variant == 5) {
                            // two triggers on the SAME line, one move-assigned onto the other: the moved-from one must not trip the line
                            lbl_moved = true;
                            armed = make_trigger(l);
                            *armed = std::move(*a);
                            a.reset(); check_untripped_if_unbegun(l, "after destroying a trigger that was moved onto another trigger of the same line");
                        } else {
                            lbl_moved = true;
                            armed = std::make_unique<gc::TripWireTrigger>(scratch);      // its duty for the scratch line is dropped by the assignment (unspecified: nobody polls it)
                            *armed = std::move(*a);
                            a.reset(); check_untripped_if_unbegun(l, "after destroying a moved-from trigger");
                        }
                        // publish, then trip
                        if (!begun[l]) datum[(size_t)l]->set(uint64_t(0xD0 + l));
                        vrt::step();
                        begun[l] = true; triggers_in_flight++;
                        armed.reset();
                        triggers_in_flight--; done[l] = true;
                        if (a) { a.reset(); }                                          // variant 2: moved-from destroyed after the trip
                        if (variant == 4) { auto again = make_trigger(l); again.reset(); }
                        if ((op.a & 4) && (l >= 6 || lines[(size_t)l])) {
                            // a long history of further triggers on the same line (taken as one chunk): tripped stays tripped "forever"
                            static const int reps[4] = {254, 255, 256, 511};
                            int nrep = reps[op.b % 4]; lbl_repeat = std::max(lbl_repeat, nrep);
                            { vrt::BulkScope bulk; for (int q = 0; q < nrep; ++q) { auto again = make_trigger(l); again.reset(); } }
                            if (!make_detector(l).isTripped()) vrt::fail("untripped", "a tripped line reports untripped after " + std::to_string(nrep) + " further triggers were destroyed on it");
                        }
                    } else if (kind <= 6) {
                        // ---------------------------------------------------- detector polling any line
                        int l = op.a % NL;
                        gc::TripWireDetector own = make_detector(l);
                        const gc::TripWireDetector& d = (op.b & 4) ? shared_det[(size_t)l] : own;
                        if (op.b & 4) lbl_shared_det = true;
                        for (int k = 0; k <= op.b % 4; ++k) {
                            bool was_done = done[l];
                            bool t = d.isTripped();
                            if (t && !begun[l]) vrt::fail("tripped-without-trigger", "detector reports tripped although no trigger on that line has begun destruction");
                            if (!t && seen_true[l]) vrt::fail("untripped", "a detector saw the line go from tripped back to untripped");
                            if (!t && was_done && !c.sched.weak) vrt::fail("not-tripped", "isTripped() is false after a trigger's destructor on that line returned");
                            if (t) {
                                if (triggers_in_flight > 0 || !was_done) lbl_seen_true_concurrent = true;
                                seen_true[l] = true;
                                uint64_t v = datum[(size_t)l]->read();              // HB-checked: must be ordered after the publisher's write
                                if (v != uint64_t(0xD0 + l)) vrt::fail("stale-datum", "data written before the trip is not visible after observing the trip");
                                lbl_datum_read = true;
                            }
                            vrt::step();
                        }
                    } else {
                        // ---------------------------------------------------- out-of-range index
                        lbl_oor = true;
                        static const unsigned huge[4] = {0x80000000u, 0xffffffffu, 0x7fffffffu, 16u};
                        unsigned bad = (op.b & 2) ? huge[op.a % 4] : 16 + (unsigned)op.a * 1000u;      // also indices that do not fit in an int
                        bool threw = false;
                        try { if (op.b & 1) { gc::TripWireDetector d(bad); (void)d; } else { gc::TripWireTrigger t(bad); (void)t; } }
                        catch (const std::out_of_range&) { threw = true; }
                        if (!threw) vrt::fail("index-accepted", "an out-of-range trip line index was accepted");
                    }
                }
            });
        }
        vrt::join_all();
        for (int l = 0; l < NL; ++l) {
            bool t = make_detector(l).isTripped();
            if (t != done[l]) vrt::fail("final-state", std::string("line ") + std::to_string(l) + (t ? " is tripped but no trigger on it was destroyed" : " is not tripped although a trigger on it was destroyed"));
        }
    });
    if (lbl_seen_true_concurrent) out.labels.push_back("trip-observed-concurrently");
    if (lbl_moved) out.labels.push_back("moved-trigger");
    if (lbl_datum_read) out.labels.push_back("datum-read-after-trip");
    if (lbl_oor) out.labels.push_back("out-of-range");
    if (lbl_shared_det) out.labels.push_back("shared-detector-object");
    if (lbl_handover) out.labels.push_back("line-handle-handed-to-trigger");
    if (lbl_repeat) out.labels.push_back("further-triggers=" + std::to_string(lbl_repeat));
    if (c.sched.weak) out.labels.push_back("weak");
    if (out.res.stale_reads) out.labels.push_back("stale-read-taken");
    out.nontrivial = lbl_datum_read && (lbl_seen_true_concurrent || lbl_moved);
    return out;
}

vh::GenSpec spec(bool th) { vh::GenSpec g; g.nfibers = 4; g.max_ops = th ? 6 : 4; g.ncodes = 8; g.amax = 8; g.bmax = 20; g.sched_len = th ? 160 : 112; g.aux_len = 32; g.aux_density = 30; g.allow_weak = true; return g; }
vh::Register r("C19", spec(false), spec(true), run_tw,
               "generated trigger life cycles (plain, move-construct with either destruction order, move-assign, repeated; the user's line handle kept or handed over to the trigger) on explicit, indexed and declared lines, polling detectors on the same "
               "and other lines, out-of-range indices; half of the cases in weak-memory mode; non-trivial = a detector read the published datum after observing the trip, and the trip was observed "
               "while a trigger destruction was in flight or a trigger had been moved");

}  // namespace
