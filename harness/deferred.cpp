// Family "deferred": deferred_guarded<Tracked, M> over the four mutex types.
// Targets: C06 (exactly once, exclusive, ordered, never stranded), C02d (readers vs deferred modifications), C15d (load is atomic).
#include "common.hpp"

namespace {

enum Prop { P_C06, P_C02, P_C15, P_C20, P_C08 };
struct UserError { int k; };
// the same, thrown as a class derived from a standard exception with a payload of its own (what user code usually throws): the future /
// the caller must receive this very exception object type, not a sliced std::exception
struct UserStdError : std::out_of_range, UserError { UserStdError(int k_) : std::out_of_range("user"), UserError{k_} {} };

struct Sub { int fiber; int kind; uint64_t bit; long call = -1, ret = -1, exec_step = -1; int exec_idx = -1; int execs = 0; int exec_fiber = -1; bool threw_out = false;
             std::future<int> fi; std::future<void> fv; bool has_fi = false, has_fv = false; bool functor_throws = false; bool fault_threw = false; bool std_exc = false; bool touch_other = false; };

struct St {
    std::deque<Sub> subs;
    int exec_counter = 0;
    int shared_alive = 0;
    int in_functor = 0;
    std::vector<uint64_t> order;       // bits in execution order
    bool lbl_queued = false, lbl_direct = false, lbl_reader_blocked_writer = false, lbl_try_null = false, lbl_nested_other = false, lbl_other_queued = false;
};
St* S = nullptr;

// A functor with non-trivial move semantics (like a lambda capturing a string / unique_ptr by value): the object that is finally invoked
// must be the one the caller passed, not a moved-from husk
struct OwningFn {
    std::function<void(Tracked&)> body;     // emptied by a move
    std::shared_ptr<int> token;
    OwningFn(std::function<void(Tracked&)> b) : body(std::move(b)), token(std::make_shared<int>(1)) {}
    OwningFn(const OwningFn&) = default;
    OwningFn(OwningFn&& o) noexcept : body(std::move(o.body)), token(std::move(o.token)) { o.body = nullptr; }
    OwningFn& operator=(const OwningFn&) = default;
    OwningFn& operator=(OwningFn&& o) noexcept { body = std::move(o.body); token = std::move(o.token); o.body = nullptr; return *this; }
    void operator()(Tracked& t) {
        if (!body || !token) vrt::fail("moved-from-functor", "deferred_guarded invoked a moved-from copy of the submitted function (the modification the caller passed is lost)");
        body(t);
    }
};
struct OwningFnInt : OwningFn {
    using OwningFn::OwningFn;
    int operator()(Tracked& t) { OwningFn::operator()(t); return 4242; }
};
template<class M> struct MC;
template<> struct MC<vstd::mutex> { static constexpr bool timed = false; static constexpr const char* name = "mutex"; };
template<> struct MC<vstd::timed_mutex> { static constexpr bool timed = true; static constexpr const char* name = "timed_mutex"; };
template<> struct MC<vstd::shared_mutex> { static constexpr bool timed = false; static constexpr const char* name = "shared_mutex"; };
template<> struct MC<vstd::shared_timed_mutex> { static constexpr bool timed = true; static constexpr const char* name = "shared_timed_mutex"; };

bool in_chain(uint64_t m, const std::vector<uint64_t>& order) {
    uint64_t acc = 0;
    if (m == acc) return true;
    for (uint64_t b : order) { acc |= b; if (m == acc) return true; }
    return false;
}

template<class M>
vh::Outcome run_def(const vh::Case& c, Prop prop) {
    using D = lg::deferred_guarded<Tracked, M>;
    reset_case_globals();
    St st; S = &st;
    vh::Outcome out;
    bool faults = prop == P_C20;
    out.res = vrt::run(c.sched, [&] {
        std::unique_ptr<D> dp(ctor_from_rvalue(c) ? new D(Tracked(uint64_t(0))) : new D(uint64_t(0)));
        D& d = *dp;
        vrt::MutexCore* core = vrt::rt().mutexes.empty() ? nullptr : vrt::rt().mutexes[0];     // m_mutex is the first mutex the wrapper constructs
        // a second instance of the very same type: functions queued on the first may read it, and it has queued modifications of its own
        // (anything the wrapper keeps per thread or per type instead of per object shows up here)
        std::unique_ptr<D> dp2(new D(uint64_t(0)));
        D& d2 = *dp2;
        int sub2 = 0, exec2 = 0;
        constexpr bool share_capable = std::is_same<M, vstd::shared_mutex>::value || std::is_same<M, vstd::shared_timed_mutex>::value;
        auto owns_shared = [&] { return core && (share_capable ? core->shared_by[vrt::self()] > 0 : core->owner == vrt::self()); };
        // the functor every submission runs
        auto body = [&st, faults, &d2](Sub& s, Tracked& t) {
            s.execs++;
            if (s.execs > 1) vrt::fail("executed-twice", "a submitted modification was executed more than once");
            if (st.shared_alive > 0) vrt::fail("modify-under-reader", "a modification ran while a shared handle was alive");
            if (st.in_functor > 0) vrt::fail("modifications-overlap", "two modifications ran concurrently");
            st.in_functor++;
            s.exec_idx = st.exec_counter++; s.exec_step = vrt::now_step(); s.exec_fiber = vrt::self();
            if (faults) { try { vrt::fault_point(vrt::F_FUNCTOR); } catch (...) { st.in_functor--; s.fault_threw = true; throw; } }
            t.or_bits(s.bit);
            st.order.push_back(s.bit);
            if (s.touch_other) { st.lbl_nested_other = true; auto h2 = d2.lock_shared(); if (!h2) vrt::fail("null-handle", "lock_shared on the second instance returned null"); (void)h2->read(); }
            st.in_functor--;
            if (s.functor_throws) { if (s.std_exc) throw UserStdError(s.exec_idx); throw UserError{s.exec_idx}; }
        };
        int nbit = 0;
        for (size_t i = 0; i < c.fibers.size(); ++i) {
            if (c.fibers[i].empty()) continue;
            vrt::spawn([&, i] {
                int me = vrt::self();
                for (auto& op : c.fibers[i]) {
                    int kind = op.code % 8;
                    bool detach_throws = false;
                    if (kind == 0 && (op.b & 4) && !faults) detach_throws = true;     // a modify_detach whose function throws after modifying
                    if (!faults && (kind == 0 || kind == 4) && (op.b & 48) == 48) {
                        // operations on the second instance: a reader that holds it for a while, or a modification that may get queued behind that reader
                        if (kind == 4) { auto h2 = d2.lock_shared(); for (int s2 = 0; s2 <= (op.b & 3); ++s2) vrt::step(); (void)h2->read(); }
                        else { sub2++; bool owner_before = vrt::rt().mutexes.size() > 2; (void)owner_before; d2.modify_detach([&exec2](Tracked& t2) { exec2++; t2.or_bits(uint64_t(1)); }); if (exec2 < sub2) st.lbl_other_queued = true; }
                        if (vrt::me().held != 0) vrt::fail("lock-leaked", "a mutex is still held after an operation on the second instance returned");
                        continue;
                    }
                    if (kind <= 3) {
                        st.subs.emplace_back();
                        Sub& s = st.subs.back();
                        s.fiber = me; s.kind = kind; s.bit = uint64_t(1) << (nbit++ % 60);
                        s.functor_throws = (kind == 3) || detach_throws; s.std_exc = (op.b & 2) != 0;
                        s.touch_other = !faults && (op.b & 48) == 32;              // this function also reads the second instance (after its own modification)
                        s.call = vrt::now_step();
                        try {
                            if (kind == 0 && (op.a & 2)) d.modify_detach(OwningFn([&body, &s](Tracked& t) { body(s, t); }));      // rvalue functor object with owning state
                            else if (kind == 2 && (op.a & 2)) { s.fv = d.modify_async(OwningFn([&body, &s](Tracked& t) { body(s, t); })); s.has_fv = true; }
                            else if (kind == 0) d.modify_detach([&body, &s](Tracked& t) { body(s, t); });
                            else if (kind == 1 || kind == 3) { s.fi = d.modify_async([&body, &s](Tracked& t) -> int { body(s, t); return 1000 + s.exec_idx; }); s.has_fi = true; }
                            else { s.fv = d.modify_async([&body, &s](Tracked& t) { body(s, t); }); s.has_fv = true; }
                        } catch (const UserError&) {
                            // a throwing function propagates from modify_detach only on the direct path (it ran inside this very call)
                            if (kind != 0) vrt::fail("async-propagated", "modify_async let the function's exception escape instead of capturing it in the future");
                            if (s.exec_fiber != me) vrt::fail("foreign-exception", "modify_detach threw an exception that belongs to another thread's queued function");
                        } catch (const vrt::InjectedFault&) {
                            if (!faults) vrt::fail("escaped-fault", "fault without a plan");
                            if (kind != 0) vrt::fail("async-propagated", "modify_async let the function's exception escape instead of capturing it in the future");
                            s.threw_out = true;       // direct-path modify_detach propagates
                        }
                        s.ret = vrt::now_step();
                        if (s.execs > 0 && s.exec_fiber == me) st.lbl_direct = true;
                        if (vrt::me().held != 0) vrt::fail("lock-leaked", "a mutex is still held after a submission returned");
                    } else if (kind <= 6) {
                        bool is_try = kind >= 5;
                        long b0 = core ? (long)core->contended_by[vrt::self()] : 0;      // waits on the wrapper's main mutex only (the short internal queue mutex does not count)
                        long long w0 = vrt::me().waited_ns;
                        bool timed_for = false, nonpos = false;
                        bool excl_at_call = core && core->owner >= 0; long eacq0 = core ? core->excl_acqs : 0;
                        auto h = [&] {
                          try {
                            if (kind == 4) return d.lock_shared();
                            if constexpr (MC<M>::timed) { if (kind == 6) {
                                int dsel = (op.b >> 3) & 7; nonpos = dsel >= 4;
                                if (op.a & 1) { timed_for = !nonpos; return nonpos ? d.try_lock_shared_for(timed_arg(dsel, false)) : d.try_lock_shared_for(std::chrono::milliseconds(2)); }
                                return d.try_lock_shared_until((std::chrono::steady_clock::now() + timed_arg(dsel, true))); } }
                            return d.try_lock_shared();
                          } catch (const UserError&) { vrt::fail("foreign-exception", "a shared acquisition threw an exception that belongs to a queued function of another call"); }
                        }();
                        (void)is_try;
                        if (nonpos && core && (long)core->contended_by[vrt::self()] != b0) vrt::fail("blocked-beyond-timeout", "a timed shared acquisition with a non-positive duration / past deadline blocked instead of giving up at once");
                        if (timed_for && vrt::me().waited_ns - w0 > 2000000LL)
                            vrt::fail("blocked-beyond-timeout", "try_lock_shared_for(2ms) spent " + std::to_string((vrt::me().waited_ns - w0) / 1000) + " us of virtual time in timed waits that gave up");
                        if (bool(h) != owns_shared())
                            vrt::fail("handle-truth", std::string("deferred_guarded shared handle is ") + (h ? "non-null" : "null") + " but the caller " + (owns_shared() ? "holds" : "does not hold") + " the lock");
                        if (!h) st.lbl_try_null = true;
                        // readers can share: a shared try fails only if somebody held (or took) the lock exclusively during the call
                        // (a concurrent reader's drain attempt is an exclusive acquisition and counts)
                        if (share_capable && !h && core && !excl_at_call && eacq0 == core->excl_acqs)
                            vrt::fail("reader-blocked-by-reader", "a shared try-acquisition on deferred_guarded failed although only readers held the lock during the call");
                        if (h && (op.a & 2)) { h.unlock(); if (h) vrt::fail("unlock-not-null", "shared handle non-null after unlock()"); if (owns_shared()) vrt::fail("unlock-not-released", "lock still held after shared handle.unlock()"); }
                        if (h) {
                            st.shared_alive++;
                            uint64_t a = h->read();
                            for (int s2 = 0; s2 < op.b % 4; ++s2) vrt::step();
                            uint64_t b2 = (*h).read();
                            if (a != b2) vrt::fail("unstable-read", "value changed while a shared handle was held");
                            if (!faults && !in_chain(a, st.order)) vrt::fail("not-a-chain", "reader observed a state outside the single sequence of modifications");
                            st.shared_alive--;
                        }
                    } else {
                        Tracked v = d.load();
                        if (!faults && !in_chain(v.peek(), st.order)) vrt::fail("load-not-atomic", "load() returned a value that is not one of the states of the object");
                    }
                    if (vrt::me().held != 0) vrt::fail("lock-leaked", "a mutex is still held after an operation returned");
                }
            });
        }
        vrt::join_all();
        vrt::disable_faults();
        // quiescence: one shared acquisition (any form) or one modify call with no handle held applies everything that was accepted
        {
            size_t total_ops = 0; for (auto& f : c.fibers) total_ops += f.size();
            int form = (int)(total_ops % 5);
            const char* fname = "lock_shared";
            auto h = [&] {
                if (form == 1) { fname = "try_lock_shared"; return d.try_lock_shared(); }
                if constexpr (MC<M>::timed) {
                    if (form == 2) { fname = "try_lock_shared_for"; return d.try_lock_shared_for(std::chrono::milliseconds(2)); }
                    if (form == 3) { fname = "try_lock_shared_until"; return d.try_lock_shared_until(std::chrono::steady_clock::now() + std::chrono::milliseconds(50)); }
                }
                if (form == 4) { fname = "modify_detach + lock_shared"; bool ran = false; d.modify_detach([&](Tracked&) { ran = true; }); if (!ran) vrt::fail("stranded", "a modify_detach call made while no handle is held did not run its function");
                                 for (auto& s : st.subs) if (s.execs != 1 && !(s.threw_out || s.fault_threw)) vrt::fail("stranded", "a modify call made while no handle was held did not first apply the modifications accepted earlier"); }
                return d.lock_shared();
            }();
            out.labels.push_back(std::string("drained-by=") + fname);
            if (!h) vrt::fail("null-handle", std::string(fname) + " returned a null handle although nobody holds the lock");
            uint64_t all = 0;
            for (auto& s : st.subs) {
                if (s.execs != 1) {
                    if (s.threw_out || s.fault_threw) continue;
                    vrt::fail("stranded", std::string("a submitted modification had not been executed after quiescence plus one ") + fname);
                }
                if (!s.fault_threw) all |= s.bit;
            }
            uint64_t v = h->read();
            if (v != all) vrt::fail("final-value", "final value is not the union of all executed modifications");
        }
        // the second instance: one lock_shared applies whatever was queued on it, each function exactly once
        { auto h2 = d2.lock_shared(); if (!h2) vrt::fail("null-handle", "lock_shared on the second instance returned null");
          if (exec2 != sub2) vrt::fail("stranded", "the second deferred_guarded instance executed " + std::to_string(exec2) + " of " + std::to_string(sub2) + " accepted modifications after quiescence plus one lock_shared"); }
        // order: returned-before-called => executed first
        for (auto& a : st.subs) for (auto& b : st.subs)
            if (a.ret >= 0 && b.call >= 0 && a.ret < b.call && a.execs == 1 && b.execs == 1 && a.exec_idx > b.exec_idx)
                vrt::fail("order", "a modification whose submission returned before another was submitted was applied after it");
        // futures
        for (auto& s : st.subs) {
            if (s.execs == 1 && (s.exec_fiber != s.fiber || s.exec_step > s.ret)) st.lbl_queued = true;
            if (s.has_fi) {
                if (!s.fi.valid() || s.fi.wait_for(std::chrono::seconds(0)) != std::future_status::ready) vrt::fail("future-not-ready", "modify_async future not ready after quiescence");
                try { int r = s.fi.get(); if (s.functor_throws || s.fault_threw) vrt::fail("future-value", "future holds a value although the function threw"); if (r != 1000 + s.exec_idx) vrt::fail("future-value", "future holds a wrong value"); }
                catch (const UserStdError& e) { if (!s.functor_throws || !s.std_exc || e.k != s.exec_idx) vrt::fail("future-exception", "future holds an unexpected exception"); }
                catch (const UserError& e) { if (!s.functor_throws || s.std_exc || e.k != s.exec_idx) vrt::fail("future-exception", "future holds an unexpected exception"); }
                catch (const vrt::InjectedFault&) { if (!s.fault_threw) vrt::fail("future-exception", "future holds an injected fault that never fired in it"); }
                catch (...) { vrt::fail("future-exception", "future holds an exception that is not the one its function threw (sliced or replaced)"); }
            }
            if (s.has_fv) {
                if (!s.fv.valid() || s.fv.wait_for(std::chrono::seconds(0)) != std::future_status::ready) vrt::fail("future-not-ready", "modify_async future not ready after quiescence");
                try { s.fv.get(); if (s.fault_threw) vrt::fail("future-value", "void future is clean although the function threw"); }
                catch (const vrt::InjectedFault&) { if (!s.fault_threw) vrt::fail("future-exception", "future holds an injected fault that never fired in it"); }
                catch (...) { vrt::fail("future-exception", "void future holds an exception that is not the one its function threw"); }
            }
        }
    });
    S = nullptr;
    out.labels.push_back(std::string("M=") + MC<M>::name);
    if (st.lbl_queued) out.labels.push_back("queued-path");
    if (st.lbl_nested_other) out.labels.push_back("function-read-second-instance");
    if (st.lbl_other_queued) out.labels.push_back("second-instance-queued");
    if (st.lbl_direct) out.labels.push_back("direct-path");
    if (st.lbl_try_null) out.labels.push_back("try-null");
    if (out.res.faults_fired) out.labels.push_back("fault-fired");
    switch (prop) {
        case P_C06: out.nontrivial = st.lbl_queued && st.lbl_direct; break;
        case P_C02: out.nontrivial = st.lbl_queued; break;
        case P_C15: out.nontrivial = st.lbl_queued || (st.subs.size() >= 2 && out.res.blocked_events > 0); break;
        case P_C20: out.nontrivial = out.res.faults_fired > 0 && st.subs.size() >= 2; break;
        case P_C08: out.nontrivial = st.lbl_try_null; break;
    }
    return out;
}

vh::Outcome dispatch(const vh::Case& c, Prop p) {
    switch (c.cfg.empty() ? 0 : c.cfg[0] % 4) {
        case 0: return run_def<vstd::mutex>(c, p);
        case 1: return run_def<vstd::timed_mutex>(c, p);
        case 2: return run_def<vstd::shared_mutex>(c, p);
        default: return run_def<vstd::shared_timed_mutex>(c, p);
    }
}

vh::GenSpec spec(bool th, bool faults) {
    vh::GenSpec g; g.nfibers = 4; g.max_ops = th ? 6 : 4; g.ncodes = 8; g.amax = 4; g.bmax = 64; g.cfg_max = {4};
    g.sched_len = th ? 224 : 160; g.aux_len = 24;
    if (faults) { g.fault_max = 10; g.fault_mask = vrt::F_FUNCTOR; }
    return g;
}
vh::Register r6("C06", spec(false, false), spec(true, false), [](const vh::Case& c) { return dispatch(c, P_C06); },
                "generated submitters (modify_detach, modify_async returning/void/throwing), readers holding shared handles, try-readers and loaders on deferred_guarded over four mutex types x schedule; "
                "non-trivial = at least one submission went through the queue and at least one ran directly");
vh::Register r2("C02d", spec(false, false), spec(true, false), [](const vh::Case& c) { return dispatch(c, P_C02); },
                "as C06; non-trivial = a submission was queued because a reader (or writer) held the lock");
vh::Register r15("C15d", spec(false, false), spec(true, false), [](const vh::Case& c) { return dispatch(c, P_C15); },
                 "as C06 with load(); oracle = every loaded value is one of the states in the single sequence of modifications");
vh::Register r8("C08d", spec(false, false), spec(true, false), [](const vh::Case& c) { return dispatch(c, P_C08); },
                "as C06; every shared handle returned by lock_shared / try_lock_shared(_for/_until) is compared with the modelled mutex's ownership, unlock() must null and release; non-trivial = a try returned null");
vh::Register r20("C20d", spec(false, true), spec(true, true), [](const vh::Case& c) { return dispatch(c, P_C20); },
                 "as C06 plus a fault plan: the k-th functor invocation throws; non-trivial = the fault fired and at least two submissions were made");

}  // namespace
