// Family "lrcow": lr_guarded (C03, C14-lr, C20-lr) and cow_guarded (C04, C14-cow).
#define VRT_EXTRA_MODEL_HEADER "../vrt/model_shared_ptr.hpp"      // cow_guarded's committed-value slots are race-checked shared_ptr objects
#include "common.hpp"

namespace {


struct ModRec { int fiber; uint64_t bit; long call = -1, ret = -1; long first_apply = -1; int applies = 0; bool threw = false; int threw_at = 0; };
struct ReadRec { int fiber; long call, got, rel; uint64_t v1, v2; };

struct LrState {
    std::vector<ModRec> mods;
    std::vector<ReadRec> reads;
    std::vector<uint64_t> apply_order;   // bits in the order of their first application
    int mods_in_progress = 0;
    long flips_seen = 0;                  // number of modifies that completed their first application
    bool lbl_read_during_modify = false, lbl_held_across_flip = false, lbl_writer_waited = false, lbl_unwinding = false, lbl_nonpos = false; int lbl_crowd = 0;
};
LrState* LS = nullptr;

// check one observed mask against the chain of states
bool mask_in_chain(uint64_t m, const std::vector<uint64_t>& order, uint64_t init) {
    uint64_t acc = init;
    if (m == acc) return true;
    for (uint64_t b : order) { acc |= b; if (m == acc) return true; }
    return false;
}

// crowd sizes for the "any number of readers" clause: together with the reader's own handle they reach the wrap-around points of
// 8- and 16-bit counters (256, 512, 65536) and their neighbours
static const int kCrowd[8] = {0, 3, 254, 255, 256, 511, 65535, 65536};

template<class M>
vh::Outcome run_c03_t(const vh::Case& c, bool with_faults) {
    using LR = lg::lr_guarded<Tracked, M>;
    reset_case_globals();
    LrState st; LS = &st;
    vh::Outcome out;
    int nbits = 0;
    out.res = vrt::run(c.sched, [&] {
        std::unique_ptr<LR> lrp(ctor_from_rvalue(c) ? new LR(Tracked(uint64_t(0))) : new LR(uint64_t(0)));
        LR& lr = *lrp;
        // assign one bit per modify op
        for (size_t i = 0; i < c.fibers.size(); ++i) {
            const auto& ops = c.fibers[i];
            if (ops.empty()) continue;
            std::vector<int> mod_idx;
            for (auto& op : ops) {
                if (op.code % 2 == 1) { st.mods.push_back(ModRec{(int)i + 1, uint64_t(1) << nbits}); mod_idx.push_back((int)st.mods.size() - 1); nbits++; }
                else mod_idx.push_back(-1);
            }
            vrt::spawn([&, i, mod_idx] {
                const auto& ops = c.fibers[i];
                uint64_t last_seen = 0;
                for (size_t k = 0; k < ops.size(); ++k) {
                    const vh::Op& op = ops[k];
                    if (op.code % 2 == 1) {
                        ModRec& m = st.mods[(size_t)mod_idx[k]];
                        m.call = vrt::now_step();
                        st.mods_in_progress++;
                        try {
                            auto fn = [&](Tracked& t) {
                                m.applies++;
                                if (m.first_apply < 0) { m.first_apply = vrt::now_step(); st.apply_order.push_back(m.bit); }
                                vrt::fault_point(vrt::F_FUNCTOR);      // throw before touching the copy
                                t.or_bits(m.bit);
                                vrt::fault_point(vrt::F_FUNCTOR);      // throw after the copy was modified
                                if (m.applies == 1) st.flips_seen++;
                            };
                            // RAII clean-up code calls modify() from a destructor while an exception is propagating (as cow_guarded's own deleter does)
                            if ((op.b & 8) && !with_faults) { st.lbl_unwinding = true; auto call = [&] { lr.modify(fn); }; during_unwinding(call); }
                            else lr.modify(fn);
                        } catch (const vrt::InjectedFault&) {
                            if (!with_faults) vrt::fail("escaped-fault", "fault injected although the plan is empty");
                            m.threw = true; m.threw_at = m.applies;
                        }
                        st.mods_in_progress--;
                        m.ret = vrt::now_step();
                    } else {
                        ReadRec r; r.fiber = (int)i + 1;
                        r.call = vrt::now_step();
                        if (st.mods_in_progress > 0) st.lbl_read_during_modify = true;
                        long flips0 = st.flips_seen;
                        uint64_t need = 0;       // bits whose modify returned before this call
                        for (auto& m : st.mods) if (m.ret >= 0 && !(m.threw && m.threw_at == 1)) need |= m.bit;
                        {
                            // a crowd of further shared handles held by this reader for the whole read (taken as one indivisible chunk)
                            std::vector<typename LR::shared_handle> crowd;
                            int ncrowd = (c.cfg.size() > 1 && (op.b & 4)) ? kCrowd[c.cfg[1] % 8] : 0;
                            if (ncrowd > 0) {
                                vrt::BulkScope bulk;
                                crowd.reserve((size_t)ncrowd);
                                for (int q = 0; q < ncrowd; ++q) crowd.push_back(lr.lock_shared());
                                st.lbl_crowd = std::max(st.lbl_crowd, ncrowd);
                            }
                            auto h = (op.a % 4 == 0) ? lr.lock_shared()
                                   : (op.a % 4 == 1) ? lr.try_lock_shared()
                                   : (op.a % 4 == 2) ? lr.try_lock_shared_for(timed_arg(op.a >> 2, false))
                                                     : lr.try_lock_shared_until((std::chrono::steady_clock::now() + timed_arg(op.a >> 2, true)));
                            if (op.a % 4 >= 2 && ((op.a >> 2) & 7) >= 4) st.lbl_nonpos = true;
                            if (!h) vrt::fail("null-handle", "lr_guarded shared acquisition returned a null handle");
                            r.got = vrt::now_step();
                            r.v1 = h->read();
                            for (int s = 0; s < op.b % 4; ++s) vrt::step();
                            r.v2 = h->read();
                            if (r.v1 != r.v2) vrt::fail("unstable-read", "value changed while an lr_guarded shared handle was held");
                            if (st.flips_seen != flips0) st.lbl_held_across_flip = true;
                            if (ncrowd > 0) {
                                h.reset();                                   // own handle first, then the crowd (indivisible again)
                                vrt::BulkScope bulk; crowd.clear();
                            }
                        }
                        r.rel = vrt::now_step();
                        // currency
                        if ((r.v1 & need) != need) vrt::fail("stale-read", "lock_shared started after modify() returned but does not observe it");
                        // nothing invented: only bits whose modify has been called
                        uint64_t called = 0;
                        for (auto& m : st.mods) if (m.call >= 0) called |= m.bit;
                        if (r.v1 & ~called) vrt::fail("invented-value", "read observed a modification that was never started");
                        // monotone per reader
                        if ((r.v1 & last_seen) != last_seen) vrt::fail("went-backwards", "values observed by one reader went backwards");
                        last_seen = r.v1;
                        st.reads.push_back(r);
                    }
                }
            });
        }
        vrt::join_all();
        vrt::disable_faults();
        // one sequence of states: every mask read is a prefix-union of the application order
        // (bits of modifies that threw in the first application are rolled back and must never be seen)
        std::vector<uint64_t> order;
        uint64_t expected_final = 0;
        for (uint64_t b : st.apply_order) {
            bool rolled_back = false;
            for (auto& m : st.mods) if (m.bit == b && m.threw && m.threw_at == 1) rolled_back = true;
            if (!rolled_back) { order.push_back(b); expected_final |= b; }
        }
        for (auto& r : st.reads)
            if (!mask_in_chain(r.v1, order, 0)) vrt::fail("not-a-chain", "a reader observed a state that is not in the single sequence of states");
        // (how often the functor is applied is an implementation choice; only the observable states are judged)
        // final value through both copies: two extra modifies with reads in between
        uint64_t f1, f2, f3;
        { auto h = lr.lock_shared(); f1 = h->read(); }
        lr.modify([&](Tracked& t) { t.or_bits(uint64_t(1) << 62); });
        { auto h = lr.lock_shared(); f2 = h->read(); }
        lr.modify([&](Tracked& t) { t.or_bits(uint64_t(1) << 63); });
        { auto h = lr.lock_shared(); f3 = h->read(); }
        if (f1 != expected_final) vrt::fail("final-value", "final value is not the union of all completed modifications");
        if (f2 != (expected_final | uint64_t(1) << 62) || f3 != (expected_final | uint64_t(3) << 62))
            vrt::fail("copies-diverge", "the two copies of the lr_guarded object disagree after the run");
    });
    LS = nullptr;
    if (st.lbl_read_during_modify) out.labels.push_back("read-during-modify");
    if (st.lbl_held_across_flip) out.labels.push_back("held-across-flip");
    if (st.lbl_crowd) out.labels.push_back("crowd=" + std::to_string(st.lbl_crowd));
    if (st.lbl_unwinding) out.labels.push_back("modify-during-unwinding");
    if (st.lbl_nonpos) out.labels.push_back("non-positive-timeout");
    int active = 0; for (auto& f : c.fibers) if (!f.empty()) active++;
    out.labels.push_back("fibers=" + std::to_string(active));
    if (out.res.faults_fired) out.labels.push_back("fault-fired");
    out.nontrivial = st.lbl_read_during_modify || st.lbl_held_across_flip;
    if (with_faults) out.nontrivial = out.res.faults_fired > 0 && (!st.reads.empty() || st.mods.size() > 1);
    return out;
}

vh::Outcome run_c03(const vh::Case& c, bool with_faults) {
    // the writer mutex type is a template parameter of lr_guarded: exercise all four modelled mutex types
    switch (c.cfg.empty() ? 0 : c.cfg[0] % 4) {
        case 1: { auto o = run_c03_t<vstd::timed_mutex>(c, with_faults); o.labels.push_back("M=timed_mutex"); return o; }
        case 2: { auto o = run_c03_t<vstd::shared_mutex>(c, with_faults); o.labels.push_back("M=shared_mutex"); return o; }
        case 3: { auto o = run_c03_t<vstd::shared_timed_mutex>(c, with_faults); o.labels.push_back("M=shared_timed_mutex"); return o; }
        default: return run_c03_t<vstd::mutex>(c, with_faults);
    }
}

// ================================================================================================ C04 cow_guarded
struct Commit { uint64_t bit; long lock_call, lock_ret, rel_call = -1, rel_ret = -1; bool cancelled = false; bool committed = false; };

// the write handle is publicly derived from std::unique_ptr: generic code reaches the private copy through the base class
template<class U, class D> U& via_unique_ptr_base(std::unique_ptr<U, D>& p) { return *p; }

template<class P, class M = vstd::mutex>
vh::Outcome run_c04_t(const vh::Case& c) {
    using COW = lg::cow_guarded<P, M>;
    reset_case_globals();
    vrt::tstats().dtor_hb_exempt = true;
    vh::Outcome out;
    std::deque<Commit> commits;
    std::vector<uint64_t> order;            // committed bits in commit order (release call order; writers are serialised)
    uint64_t cancelled_bits = 0;
    bool lbl_reread_after_commit = false, lbl_cancel_while_blocked = false, lbl_moved = false, lbl_snapshot_outlived = false, lbl_get = false, lbl_unwinding = false;
    int writers_waiting = 0;
    long commits_done = 0;
    long ctor0 = 0;
    out.res = vrt::run(c.sched, [&] {
        {
            std::unique_ptr<COW> cowp(ctor_from_rvalue(c) ? new COW(P(uint64_t(0))) : new COW(uint64_t(0)));
            COW& cow = *cowp;
            ctor0 = vrt::tstats().ctor - vrt::tstats().dtor;   // live payload objects belonging to the wrapper itself
            auto check_snapshot_value = [&](uint64_t v, long call_step, const char* who) {
                if (v & cancelled_bits) vrt::fail("cancelled-visible", std::string(who) + " observed a modification that was cancelled");
                if (!mask_in_chain(v, order, 0)) {
                    // the commit that produced v may be in flight (published but its release has not returned): accept chain + in-flight bit
                    bool ok = false;
                    for (auto& cm : commits) if (!cm.cancelled && cm.rel_call >= 0 && !cm.committed) { std::vector<uint64_t> o2 = order; o2.push_back(cm.bit); if (mask_in_chain(v, o2, 0)) ok = true; }
                    if (!ok) vrt::fail("not-a-chain", std::string(who) + " observed a value outside the single sequence of committed states (lost update)");
                }
                uint64_t need = 0;
                for (auto& cm : commits) if (cm.committed && cm.rel_ret >= 0 && cm.rel_ret < call_step) need |= cm.bit;
                if ((v & need) != need) vrt::fail("stale-snapshot", std::string(who) + " started after a commit returned but does not contain it");
            };
            int nbit = 0;
            for (size_t i = 0; i < c.fibers.size(); ++i) {
                if (c.fibers[i].empty()) continue;
                vrt::spawn([&, i] {
                    std::vector<std::pair<typename COW::shared_handle, uint64_t>> kept;    // long-lived snapshots of this fiber
                    for (auto& op : c.fibers[i]) {
                        int kind = op.code % 6;
                        if (kind <= 2) {
                            // -------------------------------------------------------- writer: commit (0,1) or cancel (2)
                            commits.emplace_back();
                            Commit& cm = commits.back();
                            cm.bit = uint64_t(1) << (nbit++ % 60);
                            cm.lock_call = vrt::now_step();
                            writers_waiting++;
                            std::optional<typename COW::handle> hopt;
                            try { hopt.emplace(cow.lock()); }
                            catch (const vrt::InjectedFault&) {
                                if (!c.sched.fault_k) vrt::fail("escaped-fault", "fault without a plan");
                                if (vrt::me().held != 0) vrt::fail("lock-leaked-on-throw", "cow_guarded::lock left the writer mutex locked after the payload copy threw");
                            }
                            writers_waiting--;
                            if (!hopt) { cm.bit = 0; cm.cancelled = true; continue; }   // never pop: other fibers may have appended meanwhile
                            typename COW::handle& h = *hopt;
                            cm.lock_ret = vrt::now_step();
                            if (!h) vrt::fail("null-handle", "cow_guarded::lock returned a null handle");
                            int path = (op.b >> 2) & 3;          // every public route to the private copy; one writer sticks to one route
                            auto obj = [&]() -> P& { return path == 1 ? *h : path == 2 ? *h.get() : path == 3 ? via_unique_ptr_base(h) : *h.operator->(); };
                            if (path >= 2) lbl_get = true;
                            uint64_t init = obj().read();
                            // interval bounds for the initial value
                            uint64_t lower = 0, upper = 0;
                            for (auto& o : commits) {
                                if (&o == &cm || o.cancelled) continue;
                                if (o.committed && o.rel_ret >= 0 && o.rel_ret < cm.lock_call) lower |= o.bit;
                                if (o.rel_call >= 0 && o.rel_call < cm.lock_ret) upper |= o.bit;
                            }
                            if ((init & lower) != lower) vrt::fail("write-handle-stale", "write handle does not start from the latest committed value (a commit that had returned is missing)");
                            if (init & ~upper) vrt::fail("write-handle-future", "write handle contains a modification that had not been released when lock() returned");
                            if (init & cancelled_bits) vrt::fail("cancelled-visible", "write handle starts from a cancelled modification");
                            if (!mask_in_chain(init, order, 0)) vrt::fail("not-a-chain", "write handle starts from a value outside the sequence of committed states");
                            if (init != (order.empty() ? 0 : [&] { uint64_t a = 0; for (auto b : order) a |= b; return a; }()))
                                vrt::fail("write-handle-stale", "write handle does not start from the latest committed value although writers are serialised");
                            obj().or_bits(cm.bit);
                            for (int s = 0; s < op.b % 3; ++s) vrt::step();
                            if (kind == 2) {
                                cm.cancelled = true; cancelled_bits |= cm.bit;
                                if (writers_waiting > 0) lbl_cancel_while_blocked = true;
                                h.cancel();
                                if (h) vrt::fail("cancel-not-null", "handle is non-null after cancel()");
                                if (vrt::me().held != 0) vrt::fail("cancel-holds-lock", "the writer lock is still held after cancel()");
                                if ((op.a & 1) && !c.sched.fault_k) {
                                    // the cancelled handle object stays alive while this fiber writes again
                                    commits.emplace_back();
                                    Commit& c2 = commits.back();
                                    c2.bit = uint64_t(1) << (nbit++ % 60);
                                    c2.lock_call = vrt::now_step();
                                    typename COW::handle h2 = cow.lock();
                                    c2.lock_ret = vrt::now_step();
                                    h2->or_bits(c2.bit);
                                    c2.rel_call = vrt::now_step(); order.push_back(c2.bit);
                                    h2.reset();
                                    c2.rel_ret = vrt::now_step(); c2.committed = true; commits_done++;
                                }
                            } else {
                                cm.rel_call = vrt::now_step(); order.push_back(cm.bit);
                                if (op.a & 1) {
                                    lbl_moved = true; typename COW::handle h2(std::move(h)); if (h) vrt::fail("move-not-null", "moved-from write handle is non-null");
                                    if (op.a & 2) {
                                        // permitted but unusual: cancel() on the moved-from (null) handle is a no-op; the moved-to handle still owns the writer lock
                                        h.cancel();
                                        if (vrt::me().held == 0) vrt::fail("moved-from-cancel-released", "cancel() on a moved-from write handle released the writer lock that the moved-to handle still depends on");
                                        for (int s2 = 0; s2 < 2; ++s2) vrt::step();
                                    }
                                    h2.reset();
                                }
                                else if ((op.b & 16) && !c.sched.fault_k) { lbl_unwinding = true; auto rel = [&] { h.reset(); }; during_unwinding(rel); }     // the handle goes out of scope because an exception propagates: that still publishes
                                else h.reset();
                                cm.rel_ret = vrt::now_step(); cm.committed = true; commits_done++;
                                if (vrt::me().held != 0) vrt::fail("commit-holds-lock", "the writer lock is still held after the handle was released");
                            }
                        } else {
                            // -------------------------------------------------------- reader: snapshot
                            long call = vrt::now_step();
                            long cd0 = commits_done;
                            long b0 = vrt::me().blocking_ops;
                            typename COW::shared_handle s = (op.a % 4 == 0) ? cow.lock_shared() : (op.a % 4 == 1) ? cow.try_lock_shared()
                                                 : (op.a % 4 == 2) ? cow.try_lock_shared_for(timed_arg(op.a >> 2, false)) : cow.try_lock_shared_until((std::chrono::steady_clock::now() + timed_arg(op.a >> 2, true)));
                            (void)b0;      // non-blocking reads are C14's business (decided there by completion against a frozen writer)
                            if (!s) vrt::fail("null-handle", "cow_guarded shared acquisition returned null");
                            uint64_t v1 = s->read();
                            check_snapshot_value(v1, call, "a snapshot");
                            for (int k = 0; k < op.b % 4; ++k) vrt::step();
                            uint64_t v2 = s->read();
                            if (v1 != v2) vrt::fail("snapshot-changed", "the contents of a snapshot changed while it was held");
                            if (commits_done != cd0) lbl_reread_after_commit = true;
                            if (kind == 5 && kept.size() < 3) kept.emplace_back(s, v1);
                        }
                        for (auto& kp : kept) {
                            uint64_t v = kp.first->read();
                            if (v != kp.second) vrt::fail("snapshot-changed", "the contents of an old snapshot changed after later commits");
                            uint64_t cur = 0; for (auto b : order) cur |= b;
                            if (cur != kp.second) lbl_snapshot_outlived = true;
                        }
                    }
                });
            }
            vrt::join_all();
            vrt::disable_faults();
            uint64_t fin = cow.lock_shared()->read();
            uint64_t exp = 0; for (auto b : order) exp |= b;
            if (fin != exp) vrt::fail("final-value", "final committed value is not the union of all commits (lost update or cancelled data published)");
            { typename COW::handle h = cow.lock(); if (h->read() != exp) vrt::fail("final-value", "write handle after the run does not start from the final value"); h.cancel(); }
        }
        long live = vrt::tstats().ctor - vrt::tstats().dtor;
        if (live != 0) vrt::fail("payload-leak", std::to_string(live) + " payload object(s) constructed by cow_guarded were never destroyed (or destroyed twice)");
    });
    if (lbl_reread_after_commit) out.labels.push_back("reread-after-commit");
    if (lbl_snapshot_outlived) out.labels.push_back("old-snapshot-outlived-commit");
    if (lbl_cancel_while_blocked) out.labels.push_back("cancel-while-writer-blocked");
    if (lbl_moved) out.labels.push_back("moved-write-handle");
    if (lbl_get) out.labels.push_back("written-through-get()/base-class");
    if (lbl_unwinding) out.labels.push_back("released-during-unwinding");
    out.nontrivial = lbl_reread_after_commit || lbl_snapshot_outlived || lbl_cancel_while_blocked;
    if (c.sched.fault_k) { out.nontrivial = out.res.faults_fired > 0; if (out.res.faults_fired) out.labels.push_back("fault-fired"); }
    return out;
}

vh::Outcome run_c04(const vh::Case& c) {
    // payload variants: Tracked (move may throw) and TrackedNX (nothrow-movable: type-trait dependent code paths)
    bool timed = c.cfg.size() > 1 && c.cfg[1] % 2 == 1;
    if (!c.sched.fault_k && !c.cfg.empty() && c.cfg[0] % 3 == 2) { vh::Outcome o = run_c04_t<vrt::TrackedIL>(c); o.labels.push_back("payload=initializer-list-constructible"); return o; }
    if (!c.sched.fault_k && !c.cfg.empty() && c.cfg[0] % 3 == 1) {
        vh::Outcome o = timed ? run_c04_t<vrt::TrackedNX, vstd::timed_mutex>(c) : run_c04_t<vrt::TrackedNX>(c);
        o.labels.push_back("payload=nothrow-movable"); if (timed) o.labels.push_back("M=timed_mutex"); return o;
    }
    if (timed) { vh::Outcome o = run_c04_t<Tracked, vstd::timed_mutex>(c); o.labels.push_back("M=timed_mutex"); return o; }
    return run_c04_t<Tracked>(c);
}

vh::GenSpec c04_spec(bool thorough) {
    vh::GenSpec g; g.nfibers = 4; g.cfg_max = {3, 2}; g.max_ops = thorough ? 6 : 4; g.ncodes = 6; g.amax = 32; g.bmax = 32;
    g.sched_len = thorough ? 256 : 176; g.aux_len = 16;
    return g;
}
vh::GenSpec c20cow_spec(bool th) { vh::GenSpec g = c04_spec(th); g.fault_max = 8; g.fault_mask = vrt::F_COPY; return g; }
vh::Register r_c20cow("C20cow", c20cow_spec(false), c20cow_spec(true), run_c04,
                      "as C04 with a fault plan: the k-th payload copy (made inside cow_guarded::lock) throws; the writer mutex must be released and later writers and readers proceed");
vh::Register r_c04("C04", c04_spec(false), c04_spec(true), run_c04,
                   "generated cow_guarded writers (lock, modify, release / cancel, handle moves, re-lock while a cancelled handle object is alive) and readers taking snapshots that they keep across "
                   "later commits x generated schedule; non-trivial = a snapshot was re-read after a later commit, or a cancel happened while another writer was blocked in lock()");

vh::GenSpec c03_spec(bool thorough) {
    vh::GenSpec g;
    g.nfibers = 4; g.max_ops = thorough ? 6 : 4; g.ncodes = 2; g.amax = 32; g.bmax = 16; g.cfg_max = {4};
    g.sched_len = thorough ? 192 : 128; g.aux_len = 16; g.allow_weak = false;
    return g;
}
vh::GenSpec c03c_spec(bool thorough) { vh::GenSpec g = c03_spec(thorough); g.cfg_max = {4, 8}; g.max_ops = 3; return g; }
vh::GenSpec c03w_spec(bool thorough) { vh::GenSpec g = c03_spec(thorough); g.allow_weak = true; return g; }
vh::GenSpec c20lr_spec(bool thorough) { vh::GenSpec g = c03_spec(thorough); g.fault_max = 12; g.fault_mask = vrt::F_FUNCTOR; return g; }

vh::Register r_c03("C03", c03_spec(false), c03_spec(true), [](const vh::Case& c) { return run_c03(c, false); },
                   "generated lr_guarded clients (4 fiber slots of modify/read ops) x generated schedule; non-trivial = a shared acquisition was "
                   "called while a modify was in progress, or a shared handle was held across a writer's side flip; distinct = distinct (program, executed interleaving) hash");
vh::Register r_c03c("C03c", c03c_spec(false), c03c_spec(true), [](const vh::Case& c) { return run_c03(c, false); },
                    "as C03, and half of the reads additionally hold a crowd of 3 / 254 / 255 / 256 / 511 / 65535 / 65536 further shared handles (\"any number of readers\"): "
                    "with the reader's own handle the population reaches the wrap-around points of 8- and 16-bit counters; the crowd is taken and released as one indivisible chunk");
vh::Register r_c03w("C03w", c03w_spec(false), c03w_spec(true), [](const vh::Case& c) { return run_c03(c, false); },
                    "as C03 with weak-memory mode enabled on half of the cases");
vh::Register r_c20lr("C20lr", c20lr_spec(false), c20lr_spec(true), [](const vh::Case& c) { return run_c03(c, true); },
                     "as C03 plus a fault plan (k-th functor invocation throws); non-trivial = the fault fired and other operations ran afterwards");

}  // namespace
