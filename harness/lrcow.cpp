// Family "lrcow": lr_guarded (C03, C14-lr, C20-lr) and cow_guarded (C04, C14-cow).
#include "common.hpp"

namespace {

using LR = lg::lr_guarded<Tracked>;   // default Mutex = std::mutex -> modelled mutex

struct ModRec { int fiber; uint64_t bit; long call = -1, ret = -1; long first_apply = -1; int applies = 0; bool threw = false; int threw_at = 0; };
struct ReadRec { int fiber; long call, got, rel; uint64_t v1, v2; };

struct LrState {
    std::vector<ModRec> mods;
    std::vector<ReadRec> reads;
    std::vector<uint64_t> apply_order;   // bits in the order of their first application
    int mods_in_progress = 0;
    long flips_seen = 0;                  // number of modifies that completed their first application
    bool lbl_read_during_modify = false, lbl_held_across_flip = false, lbl_writer_waited = false;
};
LrState* LS = nullptr;

// check one observed mask against the chain of states
bool mask_in_chain(uint64_t m, const std::vector<uint64_t>& order, uint64_t init) {
    uint64_t acc = init;
    if (m == acc) return true;
    for (uint64_t b : order) { acc |= b; if (m == acc) return true; }
    return false;
}

vh::Outcome run_c03(const vh::Case& c, bool with_faults) {
    reset_case_globals();
    LrState st; LS = &st;
    vh::Outcome out;
    int nbits = 0;
    out.res = vrt::run(c.sched, [&] {
        LR lr(uint64_t(0));
        // assign one bit per modify op
        for (size_t i = 0; i < c.fibers.size(); ++i) {
            const auto& ops = c.fibers[i];
            if (ops.empty()) continue;
            std::vector<int> mod_idx;
            for (auto& op : ops) {
                if (op.code % 2 == 1) { st.mods.push_back(ModRec{(int)i + 1, uint64_t(1) << nbits}); mod_idx.push_back((int)st.mods.size() - 1); nbits++; }
                else mod_idx.push_back(-1);
            }
            vrt::spawn([&, i, mod_idx] {
                const auto& ops = c.fibers[i];
                uint64_t last_seen = 0;
                for (size_t k = 0; k < ops.size(); ++k) {
                    const vh::Op& op = ops[k];
                    if (op.code % 2 == 1) {
                        ModRec& m = st.mods[(size_t)mod_idx[k]];
                        m.call = vrt::now_step();
                        st.mods_in_progress++;
                        try {
                            lr.modify([&](Tracked& t) {
                                m.applies++;
                                if (m.first_apply < 0) { m.first_apply = vrt::now_step(); st.apply_order.push_back(m.bit); }
                                vrt::fault_point(vrt::F_FUNCTOR);      // throw before touching the copy
                                t.or_bits(m.bit);
                                vrt::fault_point(vrt::F_FUNCTOR);      // throw after the copy was modified
                                if (m.applies == 1) st.flips_seen++;
                            });
                        } catch (const vrt::InjectedFault&) {
                            if (!with_faults) vrt::fail("escaped-fault", "fault injected although the plan is empty");
                            m.threw = true; m.threw_at = m.applies;
                        }
                        st.mods_in_progress--;
                        m.ret = vrt::now_step();
                    } else {
                        ReadRec r; r.fiber = (int)i + 1;
                        r.call = vrt::now_step();
                        if (st.mods_in_progress > 0) st.lbl_read_during_modify = true;
                        long flips0 = st.flips_seen;
                        uint64_t need = 0;       // bits whose modify returned before this call
                        for (auto& m : st.mods) if (m.ret >= 0 && !(m.threw && m.threw_at == 1)) need |= m.bit;
                        {
                            auto h = (op.a % 4 == 0) ? lr.lock_shared()
                                   : (op.a % 4 == 1) ? lr.try_lock_shared()
                                   : (op.a % 4 == 2) ? lr.try_lock_shared_for(std::chrono::milliseconds(5))
                                                     : lr.try_lock_shared_until(std::chrono::steady_clock::time_point::max());
                            if (!h) vrt::fail("null-handle", "lr_guarded shared acquisition returned a null handle");
                            r.got = vrt::now_step();
                            r.v1 = h->read();
                            for (int s = 0; s < op.b % 4; ++s) vrt::step();
                            r.v2 = h->read();
                            if (r.v1 != r.v2) vrt::fail("unstable-read", "value changed while an lr_guarded shared handle was held");
                            if (st.flips_seen != flips0) st.lbl_held_across_flip = true;
                        }
                        r.rel = vrt::now_step();
                        // currency
                        if ((r.v1 & need) != need) vrt::fail("stale-read", "lock_shared started after modify() returned but does not observe it");
                        // nothing invented: only bits whose modify has been called
                        uint64_t called = 0;
                        for (auto& m : st.mods) if (m.call >= 0) called |= m.bit;
                        if (r.v1 & ~called) vrt::fail("invented-value", "read observed a modification that was never started");
                        // monotone per reader
                        if ((r.v1 & last_seen) != last_seen) vrt::fail("went-backwards", "values observed by one reader went backwards");
                        last_seen = r.v1;
                        st.reads.push_back(r);
                    }
                }
            });
        }
        vrt::join_all();
        // one sequence of states: every mask read is a prefix-union of the application order
        // (bits of modifies that threw in the first application are rolled back and must never be seen)
        std::vector<uint64_t> order;
        uint64_t expected_final = 0;
        for (uint64_t b : st.apply_order) {
            bool rolled_back = false;
            for (auto& m : st.mods) if (m.bit == b && m.threw && m.threw_at == 1) rolled_back = true;
            if (!rolled_back) { order.push_back(b); expected_final |= b; }
        }
        for (auto& r : st.reads)
            if (!mask_in_chain(r.v1, order, 0)) vrt::fail("not-a-chain", "a reader observed a state that is not in the single sequence of states");
        for (auto& m : st.mods) {
            if (m.call >= 0 && !m.threw && m.applies != 2) vrt::fail("apply-count", "modify functor was not applied exactly twice");
        }
        // final value through both copies: two extra modifies with reads in between
        uint64_t f1, f2, f3;
        { auto h = lr.lock_shared(); f1 = h->read(); }
        lr.modify([&](Tracked& t) { t.or_bits(uint64_t(1) << 62); });
        { auto h = lr.lock_shared(); f2 = h->read(); }
        lr.modify([&](Tracked& t) { t.or_bits(uint64_t(1) << 63); });
        { auto h = lr.lock_shared(); f3 = h->read(); }
        if (f1 != expected_final) vrt::fail("final-value", "final value is not the union of all completed modifications");
        if (f2 != (expected_final | uint64_t(1) << 62) || f3 != (expected_final | uint64_t(3) << 62))
            vrt::fail("copies-diverge", "the two copies of the lr_guarded object disagree after the run");
    });
    LS = nullptr;
    if (st.lbl_read_during_modify) out.labels.push_back("read-during-modify");
    if (st.lbl_held_across_flip) out.labels.push_back("held-across-flip");
    int active = 0; for (auto& f : c.fibers) if (!f.empty()) active++;
    out.labels.push_back("fibers=" + std::to_string(active));
    if (out.res.faults_fired) out.labels.push_back("fault-fired");
    out.nontrivial = st.lbl_read_during_modify || st.lbl_held_across_flip;
    if (with_faults) out.nontrivial = out.res.faults_fired > 0 && (!st.reads.empty() || st.mods.size() > 1);
    return out;
}

vh::GenSpec c03_spec(bool thorough) {
    vh::GenSpec g;
    g.nfibers = 4; g.max_ops = thorough ? 6 : 4; g.ncodes = 2; g.amax = 4; g.bmax = 4;
    g.sched_len = thorough ? 192 : 128; g.aux_len = 16; g.allow_weak = false;
    return g;
}
vh::GenSpec c03w_spec(bool thorough) { vh::GenSpec g = c03_spec(thorough); g.allow_weak = true; return g; }
vh::GenSpec c20lr_spec(bool thorough) { vh::GenSpec g = c03_spec(thorough); g.fault_max = 12; g.fault_mask = vrt::F_FUNCTOR; return g; }

vh::Register r_c03("C03", c03_spec(false), c03_spec(true), [](const vh::Case& c) { return run_c03(c, false); },
                   "generated lr_guarded clients (4 fiber slots of modify/read ops) x generated schedule; non-trivial = a shared acquisition was "
                   "called while a modify was in progress, or a shared handle was held across a writer's side flip; distinct = distinct (program, executed interleaving) hash");
vh::Register r_c03w("C03w", c03w_spec(false), c03w_spec(true), [](const vh::Case& c) { return run_c03(c, false); },
                    "as C03 with weak-memory mode enabled on half of the cases");
vh::Register r_c20lr("C20lr", c20lr_spec(false), c20lr_spec(true), [](const vh::Case& c) { return run_c03(c, true); },
                     "as C03 plus a fault plan (k-th functor invocation throws); non-trivial = the fault fired and other operations ran afterwards");

}  // namespace
