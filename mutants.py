"""Sensitivity mutants: realistic breakages of GMLC-TDC/concurrency, each a textual edit of one header.
Every mutant still compiles; `props` lists the property checks that must kill it."""

LR = "gmlc/libguarded/lr_guarded.hpp"

DRAIN1 = '''    if (local_countingLeft) {
        while (m_rightReadCount.load() != 0) {
            std::this_thread::yield();
        }
    } else {
        while (m_leftReadCount.load() != 0) {
            std::this_thread::yield();
        }
    }

    m_countingLeft.store(!local_countingLeft);'''
DRAIN2 = '''    m_countingLeft.store(!local_countingLeft);

    if (local_countingLeft) {
        while (m_leftReadCount.load() != 0) {
            std::this_thread::yield();
        }
    } else {
        while (m_rightReadCount.load() != 0) {
            std::this_thread::yield();
        }
    }
'''

MUTANTS = [
    {"name": "lr-no-drain1", "props": ["C03"], "edits": [{"file": LR, "old": DRAIN1, "new": "    m_countingLeft.store(!local_countingLeft);"}]},
    {"name": "lr-no-drain2", "props": ["C03"], "edits": [{"file": LR, "old": DRAIN2, "new": "    m_countingLeft.store(!local_countingLeft);\n"}]},
    {"name": "lr-side-before-register", "props": ["C03"], "edits": [{"file": LR,
        "old": '''    if (m_countingLeft) {
        m_leftReadCount++;
        if (m_readingLeft) {''',
        "new": '''    bool rl = m_readingLeft;
    if (m_countingLeft) {
        m_leftReadCount++;
        if (rl) {'''}]},
    {"name": "lr-deleter-wrong-counter", "props": ["C03"], "edits": [{"file": LR,
        "old": "            return shared_handle(&m_right, shared_deleter(m_leftReadCount));",
        "new": "            return shared_handle(&m_right, shared_deleter(m_rightReadCount));"}]},
    {"name": "lr-no-write-mutex", "props": ["C03"], "edits": [{"file": LR,
        "old": "    std::lock_guard<M> lock(m_writeMutex);\n\n    T* firstWriteLocation;",
        "new": "    T* firstWriteLocation;"}]},
    {"name": "lr-apply-once", "props": ["C03"], "edits": [{"file": LR,
        "old": '''    try {
        func(*secondWriteLocation);
    }
    catch (...) {
        *secondWriteLocation = *firstWriteLocation;
        throw;
    }''',
        "new": '''    *secondWriteLocation = *secondWriteLocation;'''}]},
    {"name": "lr-flip-before-apply", "props": ["C03"], "edits": [{"file": LR,
        "old": '''    try {
        func(*firstWriteLocation);
    }
    catch (...) {
        *firstWriteLocation = *secondWriteLocation;
        throw;
    }

    m_readingLeft.store(!local_readingLeft);
''',
        "new": '''    m_readingLeft.store(!local_readingLeft);
    try {
        func(*firstWriteLocation);
    }
    catch (...) {
        *firstWriteLocation = *secondWriteLocation;
        throw;
    }
'''}]},

    # ---------------------------------------------------------------- locks family
    {"name": "guarded-store-nolock", "props": ["C01", "C15"], "edits": [{"file": "gmlc/libguarded/guarded.hpp",
        "old": """    void store(objType&& newObj)
    {  // uses a forwarding reference
        std::lock_guard<M> glock(m_mutex);
""", "new": """    void store(objType&& newObj)
    {  // uses a forwarding reference
"""}]},
    {"name": "guarded-load-nolock", "props": ["C01", "C15"], "edits": [{"file": "gmlc/libguarded/guarded.hpp",
        "old": """void> load()
    {
        std::lock_guard<M> glock(m_mutex);
""", "new": """void> load()
    {
"""}]},
    {"name": "ordered-assign-nolock", "props": ["C01", "C15"], "edits": [{"file": "gmlc/libguarded/ordered_guarded.hpp",
        "old": """    ordered_guarded& operator=(objType&& newObj)
    {  // uses a forwarding reference
        std::lock_guard<M> glock(m_mutex);
""", "new": """    ordered_guarded& operator=(objType&& newObj)
    {  // uses a forwarding reference
"""}]},
    {"name": "try-handle-nonnull-unowned", "props": ["C01", "C08"], "edits": [{"file": "gmlc/libguarded/handles.hpp",
        "old": """    typename lock_handle<T, M>::lock_type glock(gmutex, std::try_to_lock);
    if (glock.owns_lock()) {
        return lock_handle<T, M>(obj, std::move(glock));
    } else {
        return lock_handle<T, M>(nullptr, std::move(glock));
    }""", "new": """    typename lock_handle<T, M>::lock_type glock(gmutex, std::try_to_lock);
    return lock_handle<T, M>(obj, std::move(glock));"""}]},
    {"name": "ordered-modify-shared-lock", "props": ["C01", "C02"], "edits": [{"file": "gmlc/libguarded/ordered_guarded.hpp",
        "old": """    ordered_guarded<T, M>::modify(Func&& func)
{
    std::lock_guard<M> lock(m_mutex);
    func(m_obj);""", "new": """    ordered_guarded<T, M>::modify(Func&& func)
{
    typename shared_handle::lock_type lock(m_mutex);
    func(m_obj);"""}]},
    {"name": "lock-handle-ctor-trylock", "props": ["C01", "C08"], "edits": [{"file": "gmlc/libguarded/handles.hpp",
        "old": "lock_handle(pointer val, M& mut): data(val), m_handle_lock(mut) {}",
        "new": "lock_handle(pointer val, M& mut): data(val), m_handle_lock(mut, std::try_to_lock) {}"}]},
    {"name": "gopt-inverted-enabled", "props": ["C01", "C08"], "edits": [{"file": "gmlc/libguarded/guarded_opt.hpp",
        "old": """    return (enabled) ? try_lock_handle_for(&m_obj, m_mutex, d) :
                       handle(&m_obj, std::unique_lock<M>());""",
        "new": """    return (!enabled) ? try_lock_handle_for(&m_obj, m_mutex, d) :
                       handle(&m_obj, std::unique_lock<M>());"""}]},
    {"name": "ordered-read-nolock", "props": ["C02"], "edits": [{"file": "gmlc/libguarded/ordered_guarded.hpp",
        "old": """    ordered_guarded<T, M>::read(Func&& func) const
{
    typename shared_handle::lock_type glock(m_mutex);
    func(m_obj);""", "new": """    ordered_guarded<T, M>::read(Func&& func) const
{
    func(m_obj);"""}]},
    {"name": "shared-try-nonnull-unowned", "props": ["C02", "C08"], "edits": [{"file": "gmlc/libguarded/handles.hpp",
        "old": """    typename shared_lock_handle<T, M>::lock_type slock(smutex,
                                                       std::try_to_lock);
    if (slock.owns_lock()) {
        return shared_lock_handle<T, M>(obj, std::move(slock));
    } else {
        return shared_lock_handle<T, M>(nullptr, std::move(slock));
    }""", "new": """    typename shared_lock_handle<T, M>::lock_type slock(smutex,
                                                       std::try_to_lock);
    return shared_lock_handle<T, M>(obj, std::move(slock));"""}]},
    {"name": "shared-locker-unique", "props": ["C02"], "edits": [{"file": "gmlc/libguarded/handles.hpp",
        "old": """class shared_locker {
  public:
    using locker_type = std::shared_lock<M>;""", "new": """class shared_locker {
  public:
    using locker_type = std::unique_lock<M>;"""}]},
    {"name": "handle-unlock-not-null", "props": ["C08"], "edits": [{"file": "gmlc/libguarded/handles.hpp",
        "old": """    void unlock()
    {
        data = nullptr;
        if (m_handle_lock.owns_lock()) {
            m_handle_lock.unlock();
        }
    }
    T* operator->() const noexcept""", "new": """    void unlock()
    {
        if (m_handle_lock.owns_lock()) {
            m_handle_lock.unlock();
        }
    }
    T* operator->() const noexcept"""}]},
    {"name": "shared-handle-unlock-no-release", "props": ["C08"], "edits": [{"file": "gmlc/libguarded/handles.hpp",
        "old": """    void unlock()
    {
        data = nullptr;
        if (m_handle_lock.owns_lock()) {
            m_handle_lock.unlock();
        }
    }
    const T* operator->() const noexcept""", "new": """    void unlock()
    {
        data = nullptr;
    }
    const T* operator->() const noexcept"""}]},
    {"name": "try-for-blocking", "props": ["C08"], "edits": [{"file": "gmlc/libguarded/handles.hpp",
        "old": """lock_handle<T, M> try_lock_handle_for(T* obj, M& gmutex, const Duration& d)
{
    typename lock_handle<T, M>::lock_type glock(gmutex, d);""", "new": """lock_handle<T, M> try_lock_handle_for(T* obj, M& gmutex, const Duration& d)
{
    (void)d;
    typename lock_handle<T, M>::lock_type glock(gmutex);"""}]},
    {"name": "sopt-disabled-locks", "props": ["C08"], "edits": [{"file": "gmlc/libguarded/shared_guarded_opt.hpp",
        "old": """auto shared_guarded_opt<T, M>::lock_shared() const -> shared_handle
{
    return (enabled) ?""", "new": """auto shared_guarded_opt<T, M>::lock_shared() const -> shared_handle
{
    return (enabled || true) ?"""}]},
    {"name": "shared-until-nonnull-unowned", "props": ["C08"], "edits": [{"file": "gmlc/libguarded/handles.hpp",
        "old": """    typename shared_lock_handle<T, M>::lock_type slock(smutex, tp);
    if (slock.owns_lock()) {
        return shared_lock_handle<T, M>(obj, std::move(slock));
    } else {
        return shared_lock_handle<T, M>(nullptr, std::move(slock));
    }""", "new": """    typename shared_lock_handle<T, M>::lock_type slock(smutex, tp);
    return shared_lock_handle<T, M>(obj, std::move(slock));"""}]},
    {"name": "gopt-load-nolock", "props": ["C15"], "edits": [{"file": "gmlc/libguarded/guarded_opt.hpp",
        "old": """void> load()
    {
        std::lock_guard<M> glock(m_mutex);
""", "new": """void> load()
    {
"""}]},

    # ---------------------------------------------------------------- rcu family
    {"name": "rcu-zombie-before-unlink", "props": ["C05"], "edits": [{"file": "gmlc/libguarded/rcu_list.hpp",
        "old": """        node* oldPrev = iter.m_current->back.load();
        node* oldNext = iter.m_current->next.load();

        if (oldPrev) {""",
        "new": """        node* oldPrev = iter.m_current->back.load();
        node* oldNext = iter.m_current->next.load();
        {
            auto earlyZombie = zombie_alloc_trait::allocate(m_zombie_alloc, 1);
            zombie_alloc_trait::construct(m_zombie_alloc, earlyZombie, iter.m_current);
            zombie_list_node* oz = m_zombie_head.load();
            do {
                earlyZombie->next = oz;
            } while (!m_zombie_head.compare_exchange_weak(oz, earlyZombie));
        }

        if (oldPrev) {"""},
        {"file": "gmlc/libguarded/rcu_list.hpp",
        "old": """        auto newZombie = zombie_alloc_trait::allocate(m_zombie_alloc, 1);
        zombie_alloc_trait::construct(m_zombie_alloc,
                                      newZombie,
                                      iter.m_current);

        zombie_list_node* oldZombie = m_zombie_head.load();

        do {
            newZombie->next = oldZombie;
        } while (!m_zombie_head.compare_exchange_weak(oldZombie, newZombie));
""", "new": ""}]},
    {"name": "rcu-no-scan", "props": ["C05"], "edits": [{"file": "gmlc/libguarded/rcu_list.hpp",
        "old": """        if (n->owner.load() != nullptr) {
            last = false;
            break;
        }
""", "new": ""}]},
    {"name": "rcu-scan-first-only", "props": ["C05"], "edits": [{"file": "gmlc/libguarded/rcu_list.hpp",
        "old": """        if (n->owner.load() != nullptr) {
            last = false;
            break;
        }

        n = n->next.load();""", "new": """        if (n->owner.load() != nullptr) {
            last = false;
        }
        break;"""}]},
    {"name": "rcu-owner-cleared-early", "props": ["C05"], "edits": [{"file": "gmlc/libguarded/rcu_list.hpp",
        "old": """    zombie_list_node* cached_next = m_zombie->next.load();
    zombie_list_node* n = cached_next;

    bool last = true;""", "new": """    m_zombie->owner.store(nullptr);
    zombie_list_node* cached_next = m_zombie->next.load();
    zombie_list_node* n = cached_next;

    bool last = true;"""}]},
    {"name": "rcu-erase-clears-next", "props": ["C12"], "edits": [{"file": "gmlc/libguarded/rcu_list.hpp",
        "old": """        auto newZombie = zombie_alloc_trait::allocate(m_zombie_alloc, 1);""",
        "new": """        iter.m_current->next.store(nullptr);
        auto newZombie = zombie_alloc_trait::allocate(m_zombie_alloc, 1);"""}]},
    {"name": "rcu-head-before-link", "props": ["C12"], "edits": [{"file": "gmlc/libguarded/rcu_list.hpp",
        "old": """    } else {
        newNode->next.store(oldHead);
        oldHead->back.store(newNode.get());
        m_head.store(newNode.release());
    }
}

template<typename T, typename M, typename Alloc>
template<typename... Us>
void rcu_list<T, M, Alloc>::emplace_front""",
        "new": """    } else {
        node* nn = newNode.release();
        m_head.store(nn);
        nn->next.store(oldHead);
        oldHead->back.store(nn);
    }
}

template<typename T, typename M, typename Alloc>
template<typename... Us>
void rcu_list<T, M, Alloc>::emplace_front"""}]},
    {"name": "rcu-pushback-no-mutex", "props": ["C12"], "edits": [{"file": "gmlc/libguarded/rcu_list.hpp",
        "old": """void rcu_list<T, M, Alloc>::push_back(T data)
{
    std::lock_guard<M> guard(m_write_mutex);""",
        "new": """void rcu_list<T, M, Alloc>::push_back(T data)
{"""}]},
    {"name": "rcu-pushback-tail-stuck", "props": ["C12"], "edits": [{"file": "gmlc/libguarded/rcu_list.hpp",
        "old": """        newNode->back.store(oldTail);
        oldTail->next.store(newNode.get());
        m_tail.store(newNode.release());
    }
}

template<typename T, typename M, typename Alloc>
template<typename... Us>
void rcu_list<T, M, Alloc>::emplace_back""",
        "new": """        newNode->back.store(oldTail);
        oldTail->next.store(newNode.get());
        (void)newNode.release();
    }
}

template<typename T, typename M, typename Alloc>
template<typename... Us>
void rcu_list<T, M, Alloc>::emplace_back"""}]},
    {"name": "rcu-dtor-keeps-log", "props": ["C13"], "edits": [{"file": "gmlc/libguarded/rcu_list.hpp",
        "old": """    while (zn != nullptr && zn->owner.load() == nullptr) {""",
        "new": """    while (false && zn != nullptr && zn->owner.load() == nullptr) {"""}]},
    {"name": "rcu-release-leaks-nodes", "props": ["C13"], "edits": [{"file": "gmlc/libguarded/rcu_list.hpp",
        "old": """            if (deadNode != nullptr) {
                node_alloc_trait::destroy(m_list->m_node_alloc, deadNode);
                node_alloc_trait::deallocate(m_list->m_node_alloc, deadNode, 1);
            }""",
        "new": """            (void)deadNode;"""}]},
    {"name": "rcu-release-stale-next", "props": ["C13", "C05"], "edits": [{"file": "gmlc/libguarded/rcu_list.hpp",
        "old": """        m_zombie->next.store(n);
    }""", "new": """    }"""}]},
    {"name": "rcu-c13-original-defect", "props": ["C13"], "edits": [{"file": "gmlc/libguarded/rcu_list.hpp",
        "old": """            if (deadNode != nullptr) {
                node_alloc_trait::destroy(m_list->m_node_alloc, deadNode);
                node_alloc_trait::deallocate(m_list->m_node_alloc, deadNode, 1);
            }""",
        "new": """            node_alloc_trait::destroy(m_list->m_node_alloc, deadNode);
            node_alloc_trait::deallocate(m_list->m_node_alloc, deadNode, 1);"""}]},

    # ---------------------------------------------------------------- prims family
    {"name": "barrier-wait-on-count", "props": ["C09"], "edits": [{"file": "gmlc/concurrency/Barrier.hpp",
        "old": "                cv.wait(lck, [this, lGen] { return lGen != generation_; });\n            }\n        }\n        /// wait on the barrier and remove",
        "new": "                (void)lGen;\n                cv.wait(lck, [this] { return count_ == threshold_; });\n            }\n        }\n        /// wait on the barrier and remove"}]},
    {"name": "barrier-notify-one", "props": ["C09"], "edits": [{"file": "gmlc/concurrency/Barrier.hpp",
        "old": "                count_ = threshold_;\n                cv.notify_all();\n            } else {\n                cv.wait(lck, [this, lGen] { return lGen != generation_; });\n            }\n        }\n        /// wait on the barrier and remove",
        "new": "                count_ = threshold_;\n                cv.notify_one();\n            } else {\n                cv.wait(lck, [this, lGen] { return lGen != generation_; });\n            }\n        }\n        /// wait on the barrier and remove"}]},
    {"name": "barrier-no-count-reset", "props": ["C09"], "edits": [{"file": "gmlc/concurrency/Barrier.hpp",
        "old": "            --threshold_;\n            if (--count_ <= 0) {\n                generation_++;\n                count_ = threshold_;",
        "new": "            --threshold_;\n            if (--count_ <= 0) {\n                generation_++;"}]},
    {"name": "barrier-drop-after-flip", "props": ["C09"], "edits": [{"file": "gmlc/concurrency/Barrier.hpp",
        "old": "            --threshold_;\n            if (--count_ <= 0) {\n                generation_++;\n                count_ = threshold_;\n                cv.notify_all();",
        "new": "            if (--count_ <= 0) {\n                generation_++;\n                count_ = threshold_;\n                --threshold_;\n                cv.notify_all();"}]},
    {"name": "barrier-no-mutex", "props": ["C09"], "edits": [{"file": "gmlc/concurrency/Barrier.hpp",
        "old": "        void wait()\n        {\n            std::unique_lock<std::mutex> lck(mtx);\n            auto lGen = generation_;\n            if (--count_ <= 0) {\n                generation_++;\n                count_ = threshold_;\n                cv.notify_all();",
        "new": "        void wait()\n        {\n            std::unique_lock<std::mutex> lck(mtx, std::defer_lock);\n            auto lGen = generation_;\n            if (--count_ <= 0) {\n                generation_++;\n                count_ = threshold_;\n                cv.notify_all();\n                return;\n            }\n            lck.lock();\n            if (false) {"}]},
    {"name": "latch-arrive-no-mutex", "props": ["C10"], "edits": [{"file": "gmlc/concurrency/Latch.hpp",
        "old": "            std::unique_lock<std::mutex> lck(mtx);\n            --counter_;",
        "new": "            --counter_;"}]},
    {"name": "latch-notify-one", "props": ["C10"], "edits": [{"file": "gmlc/concurrency/Latch.hpp",
        "old": "                cv.notify_all();", "new": "                cv.notify_one();"}]},
    {"name": "latch-open-early", "props": ["C10"], "edits": [{"file": "gmlc/concurrency/Latch.hpp",
        "old": "            if (counter_ > 0) {\n                std::unique_lock<std::mutex> lck(mtx);\n                while (counter_.load() > 0) {",
        "new": "            if (counter_ > 1) {\n                std::unique_lock<std::mutex> lck(mtx);\n                while (counter_.load() > 1) {"}]},
    {"name": "latch-if-not-while", "props": ["C10"], "edits": [{"file": "gmlc/concurrency/Latch.hpp",
        "old": "                while (counter_.load() > 0) {", "new": "                if (counter_.load() > 0) {"}]},
    {"name": "latch-arrive-waits", "props": ["C10"], "edits": [{"file": "gmlc/concurrency/Latch.hpp",
        "old": "            if (counter_ == 0) {\n                cv.notify_all();\n            }\n        }",
        "new": "            if (counter_ == 0) {\n                cv.notify_all();\n            }\n            while (counter_.load() > 0) {\n                cv.wait(lck);\n            }\n        }"}]},
    {"name": "tv-trigger-no-lock", "props": ["C11"], "edits": [{"file": "gmlc/concurrency/TriggerVariable.hpp",
        "old": "        std::lock_guard<std::mutex> lock(triggerLock);\n        triggered.store(true);",
        "new": "        triggered.store(true);"}]},
    {"name": "tv-notify-before-state", "props": ["C11"], "edits": [{"file": "gmlc/concurrency/TriggerVariable.hpp",
        "old": "        std::lock_guard<std::mutex> lock(activeLock);\n        activated = true;\n        cv_active.notify_all();",
        "new": "        cv_active.notify_all();\n        std::lock_guard<std::mutex> lock(activeLock);\n        activated = true;"}]},
    {"name": "tv-reset-no-trigger", "props": ["C11"], "edits": [{"file": "gmlc/concurrency/TriggerVariable.hpp",
        "old": "            while (!triggered.load(std::memory_order_acquire)) {\n                lk.unlock();\n                trigger();\n                lk.lock();\n            }\n",
        "new": ""}]},
    {"name": "tv-wait-no-predicate", "props": ["C11"], "edits": [{"file": "gmlc/concurrency/TriggerVariable.hpp",
        "old": "            cv_trigger.wait(lk, [this] { return triggered.load(); });",
        "new": "            cv_trigger.wait(lk);"}]},
    {"name": "tv-trigger-inactive-sets", "props": ["C11"], "edits": [{"file": "gmlc/concurrency/TriggerVariable.hpp",
        "old": "        if (!activated.load()) {\n            return false;\n        }\n        std::lock_guard<std::mutex> lock(triggerLock);\n        triggered.store(true);",
        "new": "        std::lock_guard<std::mutex> lock(triggerLock);\n        triggered.store(true);\n        if (!activated.load()) {\n            return false;\n        }"}]},

    # ---------------------------------------------------------------- tripwire
    {"name": "tw-store-relaxed", "props": ["C19", "C07"], "edits": [{"file": "gmlc/concurrency/TripWire.hpp",
        "old": "lineTrigger->store(true, std::memory_order_release);", "new": "lineTrigger->store(true, std::memory_order_relaxed);"}]},
    {"name": "tw-load-relaxed", "props": ["C19", "C07"], "edits": [{"file": "gmlc/concurrency/TripWire.hpp",
        "old": "return lineDetector->load(std::memory_order_acquire);", "new": "return lineDetector->load(std::memory_order_relaxed);"}]},
    {"name": "tw-trip-in-ctor", "props": ["C19"], "edits": [{"file": "gmlc/concurrency/TripWire.hpp",
        "old": "explicit TripWireTrigger(TriplineType line): lineTrigger(std::move(line)) {}",
        "new": "explicit TripWireTrigger(TriplineType line): lineTrigger(std::move(line)) { lineTrigger->store(true, std::memory_order_release); }"}]},
    {"name": "tw-original-defect", "props": ["C19"], "edits": [{"file": "gmlc/concurrency/TripWire.hpp",
        "old": "        if (lineTrigger) {\n            lineTrigger->store(true, std::memory_order_release);\n        }",
        "new": "        lineTrigger->store(true, std::memory_order_release);"}]},
    {"name": "tw-index-unchecked", "props": ["C19"], "edits": [{"file": "gmlc/concurrency/TripWire.hpp",
        "old": "return triplines.at(index);", "new": "return triplines[index % triplines.size()];"}]},
    {"name": "tw-move-keeps-duty", "props": ["C19"], "edits": [{"file": "gmlc/concurrency/TripWire.hpp",
        "old": "    TripWireTrigger(TripWireTrigger&& twt) = default;",
        "new": "    TripWireTrigger(TripWireTrigger&& twt): lineTrigger(twt.lineTrigger) {}"}]},

    # ---------------------------------------------------------------- deferred
    {"name": "def-flag-before-enqueue", "props": ["C06"], "edits": [{"file": "gmlc/libguarded/deferred_guarded.hpp",
        "old": "        m_pendingList.lock()->emplace_back(std::move(vtask));\n        m_pendingWrites.store(true);",
        "new": "        m_pendingWrites.store(true);\n        m_pendingList.lock()->emplace_back(std::move(vtask));"}]},
    {"name": "def-drain-no-lock", "props": ["C06", "C02"], "edits": [{"file": "gmlc/libguarded/deferred_guarded.hpp",
        "old": "        std::unique_lock<M> lock(m_mutex, std::try_to_lock);\n\n        if (lock.owns_lock()) {\n            do_pending_writes_internal();\n        }",
        "new": "        do_pending_writes_internal();"}]},
    {"name": "def-flag-cleared-after-swap", "props": ["C06"], "edits": [{"file": "gmlc/libguarded/deferred_guarded.hpp",
        "old": "        m_pendingWrites.store(false);\n        swap(localPending, *(m_pendingList.lock()));",
        "new": "        swap(localPending, *(m_pendingList.lock()));\n        m_pendingWrites.store(false);"}]},
    {"name": "def-run-reverse", "props": ["C06"], "edits": [{"file": "gmlc/libguarded/deferred_guarded.hpp",
        "old": "        for (auto& f : localPending) {\n            f->run_task(m_obj);\n        }",
        "new": "        for (auto f = localPending.rbegin(); f != localPending.rend(); ++f) {\n            (*f)->run_task(m_obj);\n        }"}]},
    {"name": "def-detach-runs-unlocked", "props": ["C06", "C02"], "edits": [{"file": "gmlc/libguarded/deferred_guarded.hpp",
        "old": "    if (lock.owns_lock()) {\n        do_pending_writes_internal();\n        func(m_obj);\n    } else {",
        "new": "    if (lock.owns_lock() || !m_pendingWrites.load()) {\n        if (lock.owns_lock()) do_pending_writes_internal();\n        func(m_obj);\n    } else {"}]},
    {"name": "def-async-direct-skips-drain", "props": ["C06"], "edits": [{"file": "gmlc/libguarded/deferred_guarded.hpp",
        "old": "        do_pending_writes_internal();\n        retval = call_returning_future<return_t>(func, m_obj);",
        "new": "        retval = call_returning_future<return_t>(func, m_obj);"}]},
    {"name": "def-load-no-lock", "props": ["C15"], "edits": [{"file": "gmlc/libguarded/deferred_guarded.hpp",
        "old": "        auto handle = lock_shared();\n        T newObj(*handle);\n        return newObj;\n    }\n\n  private:\n    void do_pending_writes() const;",
        "new": "        T newObj(m_obj);\n        return newObj;\n    }\n\n  private:\n    void do_pending_writes() const;"}]},

    # ---------------------------------------------------------------- cow
    {"name": "cow-copy-before-mutex", "props": ["C04"], "edits": [{"file": "gmlc/libguarded/cow_guarded.hpp",
        "old": "    std::unique_lock<M> guard(m_writeMutex);\n\n    auto data(m_data.lock_shared());\n    std::unique_ptr<T> val(new T(**data));\n    data.reset();\n\n    return handle(val.release(), deleter(std::move(guard), *this));\n}\n\ntemplate<typename T, typename M>\nauto cow_guarded<T, M>::try_lock()",
        "new": "    auto data(m_data.lock_shared());\n    std::unique_ptr<T> val(new T(**data));\n    data.reset();\n    std::unique_lock<M> guard(m_writeMutex);\n\n    return handle(val.release(), deleter(std::move(guard), *this));\n}\n\ntemplate<typename T, typename M>\nauto cow_guarded<T, M>::try_lock()"}]},
    {"name": "cow-cancel-keeps-lock", "props": ["C04"], "edits": [{"file": "gmlc/libguarded/cow_guarded.hpp",
        "old": "            m_cancelled = true;\n\n            if (m_lock.owns_lock()) {\n                m_lock.unlock();\n            }",
        "new": "            m_cancelled = true;"},
        {"file": "gmlc/libguarded/cow_guarded.hpp",
        "old": "            if (m_cancelled) {\n                delete ptr;\n            } else if (ptr) {",
        "new": "            if (m_cancelled) {\n                delete ptr;\n                return;\n            } else if (ptr) {"}]},
    {"name": "cow-cancel-commits", "props": ["C04"], "edits": [{"file": "gmlc/libguarded/cow_guarded.hpp",
        "old": "            if (m_cancelled) {\n                delete ptr;\n            } else if (ptr) {",
        "new": "            if (m_cancelled && !ptr) {\n                delete ptr;\n            } else if (ptr) {"}]},
    {"name": "cow-cancel-leaks", "props": ["C04"], "edits": [{"file": "gmlc/libguarded/cow_guarded.hpp",
        "old": "            if (m_cancelled) {\n                delete ptr;\n            } else if (ptr) {",
        "new": "            if (m_cancelled) {\n            } else if (ptr) {"}]},
    {"name": "cow-unlock-before-publish", "props": ["C04"], "edits": [{"file": "gmlc/libguarded/cow_guarded.hpp",
        "old": "            } else if (ptr) {\n                std::shared_ptr<const T> newPtr(ptr);\n",
        "new": "            } else if (ptr) {\n                std::shared_ptr<const T> newPtr(ptr);\n                if (m_lock.owns_lock()) {\n                    m_lock.unlock();\n                }\n"}]},
    {"name": "cow-shared-returns-writable", "props": ["C04"], "edits": [{"file": "gmlc/libguarded/cow_guarded.hpp",
        "old": "    std::unique_ptr<T> val(new T(**data));\n    data.reset();\n\n    return handle(val.release(), deleter(std::move(guard), *this));\n}\n\ntemplate<typename T, typename M>\nauto cow_guarded<T, M>::try_lock()",
        "new": "    std::unique_ptr<T> val(new T(**data));\n    data.reset();\n    m_data.modify([&val](std::shared_ptr<const T>& sptr) { sptr = std::shared_ptr<const T>(val.get(), [](const T*) {}); });\n\n    return handle(val.release(), deleter(std::move(guard), *this));\n}\n\ntemplate<typename T, typename M>\nauto cow_guarded<T, M>::try_lock()"}]},

    # ---------------------------------------------------------------- C14
    {"name": "lr-reader-takes-write-mutex", "props": ["C14"], "edits": [{"file": "gmlc/libguarded/lr_guarded.hpp",
        "old": "auto lr_guarded<T, M>::lock_shared() const -> shared_handle\n{\n    if (m_countingLeft) {",
        "new": "auto lr_guarded<T, M>::lock_shared() const -> shared_handle\n{\n    std::lock_guard<M> lock(m_writeMutex);\n    if (m_countingLeft) {"}]},
    {"name": "cow-reader-takes-write-mutex", "props": ["C14"], "edits": [{"file": "gmlc/libguarded/cow_guarded.hpp",
        "old": "auto cow_guarded<T, M>::lock_shared() const -> shared_handle\n{\n    auto slock = m_data.lock_shared();",
        "new": "auto cow_guarded<T, M>::lock_shared() const -> shared_handle\n{\n    std::lock_guard<M> wl(m_writeMutex);\n    auto slock = m_data.lock_shared();"}]},
    {"name": "rcu-begin-under-write-mutex", "props": ["C14"], "edits": [{"file": "gmlc/libguarded/rcu_list.hpp",
        "old": "auto rcu_list<T, M, Alloc>::begin() const -> const_iterator\n{\n    return const_iterator(m_head.load());",
        "new": "auto rcu_list<T, M, Alloc>::begin() const -> const_iterator\n{\n    std::lock_guard<M> guard(const_cast<M&>(m_write_mutex));\n    return const_iterator(m_head.load());"}]},
    {"name": "lr-reader-spins-on-writer", "props": ["C14"], "edits": [{"file": "gmlc/libguarded/lr_guarded.hpp",
        "old": "auto lr_guarded<T, M>::lock_shared() const -> shared_handle\n{\n    if (m_countingLeft) {",
        "new": "auto lr_guarded<T, M>::lock_shared() const -> shared_handle\n{\n    while (m_readingLeft.load() != m_countingLeft.load()) {\n        std::this_thread::yield();\n    }\n    if (m_countingLeft) {"}]},
    {"name": "lr-writer-waits-wrong-counter", "props": ["C14"], "edits": [{"file": "gmlc/libguarded/lr_guarded.hpp",
        "old": "    m_countingLeft.store(!local_countingLeft);\n\n    if (local_countingLeft) {\n        while (m_leftReadCount.load() != 0) {",
        "new": "    if (local_countingLeft) {\n        while (m_leftReadCount.load() != 0) {"}]},

    # ---------------------------------------------------------------- containers
    {"name": "dd-callbacks-under-lock", "props": ["C16"], "edits": [{"file": "gmlc/concurrency/DelayedDestructor.hpp",
        "old": "                    auto deleteFunc = callBeforeDeleteFunction;\n                    lock.unlock();\n                    // this needs to be done after the lock, so a destructor\n                    // can never called while under the lock\n                    if (deleteFunc) {\n                        for (auto& element : ecall) {\n                            deleteFunc(element);\n                        }\n                    }\n                    ecall.clear();  // make sure the destructors get called\n                                    // before returning.",
        "new": "                    auto deleteFunc = callBeforeDeleteFunction;\n                    if (deleteFunc) {\n                        for (auto& element : ecall) {\n                            deleteFunc(element);\n                        }\n                    }\n                    ecall.clear();\n                    lock.unlock();"}]},
    {"name": "dd-select-shared", "props": ["C16"], "edits": [{"file": "gmlc/concurrency/DelayedDestructor.hpp",
        "old": "                    if (element.use_count() == 1) {\n                        ecall.push_back(element);\n                        epointers.emplace_back(element.get());\n                    }\n                }\n                if (!epointers.empty()) {\n                    // so apparently remove_if can actually call the\n                    // destructor for shared_ptrs so the call function needs\n                    // to be before this call\n                    auto loc =\n                        std::remove_if(ElementsToBeDestroyed.begin(),\n                                       ElementsToBeDestroyed.end(),\n                                       [&epointers](const auto& element) {\n                                           return (\n                                               (element.use_count() == 2) &&",
        "new": "                    if (element.use_count() <= 2) {\n                        ecall.push_back(element);\n                        epointers.emplace_back(element.get());\n                    }\n                }\n                if (!epointers.empty()) {\n                    // so apparently remove_if can actually call the\n                    // destructor for shared_ptrs so the call function needs\n                    // to be before this call\n                    auto loc =\n                        std::remove_if(ElementsToBeDestroyed.begin(),\n                                       ElementsToBeDestroyed.end(),\n                                       [&epointers](const auto& element) {\n                                           return (\n                                               (element.use_count() >= 2) &&"}]},
    {"name": "dd-dtor-under-lock", "props": ["C16"], "edits": [{"file": "gmlc/concurrency/DelayedDestructor.hpp",
        "old": "                    ecall.clear();  // make sure the destructors get called\n                                    // before returning.\n                    // reengage the lock so the size is correct\n                    if (!lock.try_lock_for(wait)) {\n                        return elementSize;\n                    }",
        "new": "                    // reengage the lock so the size is correct\n                    if (!lock.try_lock_for(wait)) {\n                        return elementSize;\n                    }\n                    ecall.clear();"}]},
    {"name": "dd-no-final-sweep", "props": ["C16"], "edits": [{"file": "gmlc/concurrency/DelayedDestructor.hpp",
        "old": "            while (!ElementsToBeDestroyed.empty()) {\n                ++ii;\n                destroyObjects();\n                if (!ElementsToBeDestroyed.empty()) {\n#ifdef ENABLE_TRIPWIRE\n                    // short circuit if the tripline was triggered\n                    if (tripDetect.isTripped()) {\n                        return;\n                    }\n#endif\n                    if (ii > 4) {\n                        destroyObjects();\n                        break;\n                    }\n                    if (ii % 2 == 0) {\n                        std::this_thread::sleep_for(\n                            std::chrono::milliseconds(100));\n                    } else {\n                        std::this_thread::yield();\n                    }\n                }\n            }\n        }\n        catch (...) {\n        }\n    }\n    DelayedDestructor(DelayedDestructor&&) noexcept = delete;",
        "new": "            (void)new std::vector<std::shared_ptr<X>>(std::move(ElementsToBeDestroyed));\n        }\n        catch (...) {\n        }\n    }\n    DelayedDestructor(DelayedDestructor&&) noexcept = delete;"}]},
    {"name": "dd-single-callback-twice", "props": ["C16"], "edits": [{"file": "gmlc/concurrency/DelayedDestructor.hpp",
        "old": "                    // this needs to be done after the lock, so a destructor\n                    // can never called while under the lock\n                    if (deleteFunc) {\n                        for (auto& element : ecall) {\n                            deleteFunc(element);\n                        }\n                    }\n                    ecall.clear();  // make sure the destructors get called\n                    // before returning.",
        "new": "                    if (deleteFunc) {\n                        for (auto& element : ecall) {\n                            deleteFunc(element);\n                        }\n                        if (ecall.size() > 2) {\n                            deleteFunc(ecall.front());\n                        }\n                    }\n                    ecall.clear();"}]},
    {"name": "soh-remove-keeps-tags", "props": ["C17"], "edits": [{"file": "gmlc/concurrency/SearchableObjectHolder.hpp",
        "old": "            objectMap.erase(fnd);\n            auto fnd2 = typeMap.find(name);\n            if (fnd2 != typeMap.end()) {\n                typeMap.erase(fnd2);\n            }\n            return true;",
        "new": "            objectMap.erase(fnd);\n            return true;"}]},
    {"name": "soh-add-replaces", "props": ["C17"], "edits": [{"file": "gmlc/concurrency/SearchableObjectHolder.hpp",
        "old": "        std::lock_guard<std::mutex> lock(mapLock);\n        auto res = objectMap.emplace(name, std::move(obj));\n        return res.second;\n    }",
        "new": "        std::lock_guard<std::mutex> lock(mapLock);\n        auto fnd = objectMap.find(name);\n        bool isNew = (fnd == objectMap.end());\n        objectMap[name] = std::move(obj);\n        return isNew;\n    }"}]},
    {"name": "soh-copy-drops-tags", "props": ["C17"], "edits": [{"file": "gmlc/concurrency/SearchableObjectHolder.hpp",
        "old": "                if (fnd2 != typeMap.end()) {\n                    typeMap.emplace(copyToName, fnd2->second);\n                }",
        "new": "                (void)fnd2;"}]},
    {"name": "soh-findtype-ignores-type", "props": ["C17"], "edits": [{"file": "gmlc/concurrency/SearchableObjectHolder.hpp",
        "old": "                                                if (t == type) {\n                                                    return true;\n                                                }",
        "new": "                                                (void)t;\n                                                return true;"}]},
    {"name": "soh-original-defect", "props": ["C17"], "edits": [{"file": "gmlc/concurrency/SearchableObjectHolder.hpp",
        "old": "                // look the tags up before the entry (and its key) is erased\n                auto fnd2 = typeMap.find(obj->first);\n                if (fnd2 != typeMap.end()) {\n                    typeMap.erase(fnd2);\n                }\n                objectMap.erase(obj);\n                return true;",
        "new": "                objectMap.erase(obj);\n                auto fnd2 = typeMap.find(obj->first);\n                if (fnd2 != typeMap.end()) {\n                    typeMap.erase(fnd2);\n                }\n                return true;"}]},
    {"name": "soh-removep-keeps-tags", "props": ["C17"], "edits": [{"file": "gmlc/concurrency/SearchableObjectHolder.hpp",
        "old": "                auto fnd2 = typeMap.find(obj->first);\n                if (fnd2 != typeMap.end()) {\n                    typeMap.erase(fnd2);\n                }\n                objectMap.erase(obj);\n                return true;",
        "new": "                objectMap.erase(obj);\n                return true;"}]},
    {"name": "do-set-drops-promise", "props": ["C18"], "edits": [{"file": "gmlc/concurrency/DelayedObjects.hpp",
        "old": "            fnd->second.set_value(val);\n            usedPromiseByInteger[index] = std::move(fnd->second);\n            promiseByInteger.erase(fnd);",
        "new": "            fnd->second.set_value(val);\n            promiseByInteger.erase(fnd);"}]},
    {"name": "do-set-keeps-pending", "props": ["C18"], "edits": [{"file": "gmlc/concurrency/DelayedObjects.hpp",
        "old": "            fnd->second.set_value(std::move(val));\n            usedPromiseByString[name] = std::move(fnd->second);\n            promiseByString.erase(fnd);",
        "new": "            fnd->second.set_value(std::move(val));"}]},
    {"name": "do-dtor-no-fulfil", "props": ["C18"], "edits": [{"file": "gmlc/concurrency/DelayedObjects.hpp",
        "old": "        for (auto& obj : promiseByString) {\n            obj.second.set_value(X{});\n        }\n    }",
        "new": "    }"}]},
    {"name": "do-fulfil-no-clear", "props": ["C18"], "edits": [{"file": "gmlc/concurrency/DelayedObjects.hpp",
        "old": "        promiseByInteger.clear();\n        promiseByString.clear();", "new": "        promiseByString.clear();"}]},
    {"name": "do-fulfil-skips-strings", "props": ["C18"], "edits": [{"file": "gmlc/concurrency/DelayedObjects.hpp",
        "old": "        for (auto& pr : promiseByString) {\n            pr.second.set_value(val);\n            usedPromiseByString[pr.first] = std::move(pr.second);\n        }\n        promiseByInteger.clear();\n        promiseByString.clear();",
        "new": "        promiseByInteger.clear();"}]},
    {"name": "do-iscompleted-wrong-map", "props": ["C18"], "edits": [{"file": "gmlc/concurrency/DelayedObjects.hpp",
        "old": "        auto fnd = usedPromiseByString.find(name);\n        return (fnd != usedPromiseByString.end());",
        "new": "        auto fnd = promiseByString.find(name);\n        return (fnd == promiseByString.end());"}]},

    # ---------------------------------------------------------------- C20 (throwing user code)
    {"name": "lr-no-rollback", "props": ["C20"], "edits": [{"file": "gmlc/libguarded/lr_guarded.hpp",
        "old": "    catch (...) {\n        *firstWriteLocation = *secondWriteLocation;\n        throw;\n    }", "new": "    catch (...) {\n        throw;\n    }"}]},
    {"name": "lr-no-rollforward", "props": ["C20"], "edits": [{"file": "gmlc/libguarded/lr_guarded.hpp",
        "old": "    catch (...) {\n        *secondWriteLocation = *firstWriteLocation;\n        throw;\n    }", "new": "    catch (...) {\n        throw;\n    }"}]},
    {"name": "lr-rollback-wrong-direction", "props": ["C20"], "edits": [{"file": "gmlc/libguarded/lr_guarded.hpp",
        "old": "    catch (...) {\n        *secondWriteLocation = *firstWriteLocation;\n        throw;\n    }", "new": "    catch (...) {\n        *firstWriteLocation = *secondWriteLocation;\n        throw;\n    }"}]},
    {"name": "ordered-modify-manual-lock", "props": ["C20"], "edits": [{"file": "gmlc/libguarded/ordered_guarded.hpp",
        "old": "    ordered_guarded<T, M>::modify(Func&& func)\n{\n    std::lock_guard<M> lock(m_mutex);\n    func(m_obj);\n}",
        "new": "    ordered_guarded<T, M>::modify(Func&& func)\n{\n    m_mutex.lock();\n    func(m_obj);\n    m_mutex.unlock();\n}"}]},
    {"name": "guarded-store-manual-lock", "props": ["C20"], "edits": [{"file": "gmlc/libguarded/guarded.hpp",
        "old": "    void store(objType&& newObj)\n    {  // uses a forwarding reference\n        std::lock_guard<M> glock(m_mutex);\n        m_obj = std::forward<objType>(newObj);\n    }",
        "new": "    void store(objType&& newObj)\n    {  // uses a forwarding reference\n        m_mutex.lock();\n        m_obj = std::forward<objType>(newObj);\n        m_mutex.unlock();\n    }"}]},
    {"name": "atomic-cas-manual-lock", "props": ["C20"], "edits": [{"file": "gmlc/libguarded/atomic_guarded.hpp",
        "old": "        std::lock_guard<M> glock(m_mutex);\n        if (m_obj == expected) {\n            m_obj = std::forward<objType>(desired);\n            return true;\n        }\n        expected = m_obj;\n        return false;",
        "new": "        m_mutex.lock();\n        if (m_obj == expected) {\n            m_obj = std::forward<objType>(desired);\n            m_mutex.unlock();\n            return true;\n        }\n        expected = m_obj;\n        m_mutex.unlock();\n        return false;"}]},
    {"name": "dd-no-catch", "props": ["C20"], "edits": [{"file": "gmlc/concurrency/DelayedDestructor.hpp",
        "old": "                    if (deleteFunc) {\n                        for (auto& element : ecall) {\n                            deleteFunc(element);\n                        }\n                    }\n                    ecall.clear();  // make sure the destructors get called\n                                    // before returning.",
        "new": "                    if (deleteFunc) {\n                        for (auto& element : ecall) {\n                            try {\n                                deleteFunc(element);\n                            }\n                            catch (...) {\n                                lock.lock();\n                                throw;\n                            }\n                        }\n                    }\n                    ecall.clear();  // make sure the destructors get called\n                                    // before returning."}]},
    {"name": "soh-removep-manual-lock", "props": ["C20"], "edits": [{"file": "gmlc/concurrency/SearchableObjectHolder.hpp",
        "old": "    bool removeObject(std::function<bool(const std::shared_ptr<X>&)> operand)\n    {\n        std::lock_guard<std::mutex> lock(mapLock);",
        "new": "    bool removeObject(std::function<bool(const std::shared_ptr<X>&)> operand)\n    {\n        mapLock.lock();\n        struct Unlock { std::mutex& m; bool armed{true}; ~Unlock() { if (armed && !std::uncaught_exceptions()) m.unlock(); } } lock{mapLock};"}]},
    {"name": "def-async-propagates", "props": ["C20"], "edits": [{"file": "gmlc/libguarded/deferred_guarded.hpp",
        "old": "    std::promise<Ret> promise;\n\n    try {\n        promise.set_value(func(data));\n    }\n    catch (...) {\n        promise.set_exception(std::current_exception());\n    }\n\n    return promise.get_future();",
        "new": "    std::promise<Ret> promise;\n\n    promise.set_value(func(data));\n\n    return promise.get_future();"}]},
    {"name": "cow-lock-manual-mutex", "props": ["C20"], "edits": [{"file": "gmlc/libguarded/cow_guarded.hpp",
        "old": "    std::unique_lock<M> guard(m_writeMutex);\n\n    auto data(m_data.lock_shared());\n    std::unique_ptr<T> val(new T(**data));\n    data.reset();\n\n    return handle(val.release(), deleter(std::move(guard), *this));\n}\n\ntemplate<typename T, typename M>\nauto cow_guarded<T, M>::try_lock()",
        "new": "    m_writeMutex.lock();\n\n    auto data(m_data.lock_shared());\n    std::unique_ptr<T> val(new T(**data));\n    data.reset();\n    std::unique_lock<M> guard(m_writeMutex, std::adopt_lock);\n\n    return handle(val.release(), deleter(std::move(guard), *this));\n}\n\ntemplate<typename T, typename M>\nauto cow_guarded<T, M>::try_lock()"}]},

    # ---------------------------------------------------------------- C07 (memory orders)
    {"name": "lr-acqrel-orders", "props": ["C07"], "edits": [
        {"file": "gmlc/libguarded/lr_guarded.hpp", "old": "    m_readingLeft.store(!local_readingLeft);", "new": "    m_readingLeft.store(!local_readingLeft, std::memory_order_release);"},
        {"file": "gmlc/libguarded/lr_guarded.hpp", "old": "    m_countingLeft.store(!local_countingLeft);", "new": "    m_countingLeft.store(!local_countingLeft, std::memory_order_release);"},
        {"file": "gmlc/libguarded/lr_guarded.hpp", "old": "        while (m_rightReadCount.load() != 0) {\n            std::this_thread::yield();\n        }\n    } else {\n        while (m_leftReadCount.load() != 0) {\n            std::this_thread::yield();\n        }\n    }\n\n    m_countingLeft",
         "new": "        while (m_rightReadCount.load(std::memory_order_acquire) != 0) {\n            std::this_thread::yield();\n        }\n    } else {\n        while (m_leftReadCount.load(std::memory_order_acquire) != 0) {\n            std::this_thread::yield();\n        }\n    }\n\n    m_countingLeft"},
        {"file": "gmlc/libguarded/lr_guarded.hpp", "old": "    if (m_countingLeft) {\n        m_leftReadCount++;\n        if (m_readingLeft) {",
         "new": "    if (m_countingLeft.load(std::memory_order_acquire)) {\n        m_leftReadCount.fetch_add(1, std::memory_order_acq_rel);\n        if (m_readingLeft.load(std::memory_order_acquire)) {"},
        {"file": "gmlc/libguarded/lr_guarded.hpp", "old": "        m_rightReadCount++;\n        if (m_readingLeft) {",
         "new": "        m_rightReadCount.fetch_add(1, std::memory_order_acq_rel);\n        if (m_readingLeft.load(std::memory_order_acquire)) {"}]},
    {"name": "lr-reader-flag-relaxed", "props": ["C07"], "edits": [
        {"file": "gmlc/libguarded/lr_guarded.hpp", "old": "    if (m_countingLeft) {\n        m_leftReadCount++;\n        if (m_readingLeft) {",
         "new": "    if (m_countingLeft) {\n        m_leftReadCount++;\n        if (m_readingLeft.load(std::memory_order_relaxed)) {"}]},
    {"name": "lr-deleter-relaxed", "props": ["C07"], "edits": [
        {"file": "gmlc/libguarded/lr_guarded.hpp", "old": "                m_readingCount--;", "new": "                m_readingCount.fetch_sub(1, std::memory_order_relaxed);"}]},
    {"name": "rcu-owner-clear-relaxed", "props": ["C07"], "edits": [
        {"file": "gmlc/libguarded/rcu_list.hpp", "old": "    m_zombie->owner.store(nullptr);\n}", "new": "    m_zombie->owner.store(nullptr, std::memory_order_relaxed);\n}"}]},
    {"name": "rcu-register-cas-relaxed", "props": ["C07"], "edits": [
        {"file": "gmlc/libguarded/rcu_list.hpp", "old": "    } while (!list.m_zombie_head.compare_exchange_weak(oldNext, m_zombie));",
         "new": "    } while (!list.m_zombie_head.compare_exchange_weak(oldNext, m_zombie, std::memory_order_relaxed));"}]},
    {"name": "rcu-head-store-relaxed", "props": ["C07"], "edits": [
        {"file": "gmlc/libguarded/rcu_list.hpp", "old": "        newNode->next.store(oldHead);\n        oldHead->back.store(newNode.get());\n        m_head.store(newNode.release());\n    }\n}\n\ntemplate<typename T, typename M, typename Alloc>\ntemplate<typename... Us>\nvoid rcu_list<T, M, Alloc>::emplace_front",
         "new": "        newNode->next.store(oldHead);\n        oldHead->back.store(newNode.get());\n        m_head.store(newNode.release(), std::memory_order_relaxed);\n    }\n}\n\ntemplate<typename T, typename M, typename Alloc>\ntemplate<typename... Us>\nvoid rcu_list<T, M, Alloc>::emplace_front"}]},
    {"name": "latch-fastpath-relaxed", "props": ["C07"], "edits": [
        {"file": "gmlc/concurrency/Latch.hpp", "old": "            if (counter_ > 0) {", "new": "            if (counter_.load(std::memory_order_relaxed) > 0) {"}]},
    {"name": "tv-wait-fastpath-relaxed", "props": ["C07"], "edits": [
        {"file": "gmlc/concurrency/TriggerVariable.hpp", "old": "    bool wait() const\n    {\n        if (!activated.load()) {", "new": "    bool wait() const\n    {\n        if (!activated.load(std::memory_order_relaxed)) {"}]},
]
