"""Tables that drive ./check: build flavours, family harnesses, and per-property stages.

A *stage* = (family binary, flavour, target registered inside that binary, case budget quick/thorough).
`cases` are totals over all workers.  Quick budgets are calibrated to roughly 15-30 s of search on 16 cores.
"""
import json, os

VERIF = os.path.dirname(os.path.abspath(__file__))

FLAVOURS = {
    "plain": {"cxx": "g++", "flags": "-O1 -g -fno-omit-frame-pointer", "libs": "-lrapidcheck"},
    "asan": {"cxx": "clang++", "flags": "-O1 -g -fno-omit-frame-pointer -fsanitize=address,undefined -fno-sanitize-recover=undefined",
             "libs": "-lrapidcheck",
             "env": {"ASAN_OPTIONS": "detect_leaks=0:abort_on_error=1:detect_stack_use_after_return=0:allocator_may_return_null=1",
                     "UBSAN_OPTIONS": "print_stacktrace=1:halt_on_error=1"}},
    "fuzz": {"cxx": "clang++", "flags": "-O1 -g -fno-omit-frame-pointer -fsanitize=fuzzer,address,undefined -fno-sanitize-recover=undefined -DVRT_FUZZ",
             "libs": "-lrapidcheck",
             "env": {"ASAN_OPTIONS": "detect_leaks=0:abort_on_error=1:detect_stack_use_after_return=0", "UBSAN_OPTIONS": "halt_on_error=1"}},
    "tsan": {"cxx": "clang++", "flags": "-O1 -g -fno-omit-frame-pointer -fsanitize=thread", "libs": "-lrapidcheck -lpthread",
             "env": {"TSAN_OPTIONS": "halt_on_error=1:second_deadlock_stack=1:report_signal_unsafe=0"}},
}

FAMILIES = {
    "lrcow": {"src": "lrcow.cpp"},
}

EXPLORATION_NOTE = ("Trusted base: the vrt runtime's model of std::mutex/timed_mutex/shared_mutex/shared_timed_mutex/condition_variable/atomic "
                    "(DESIGN.md §3.1), the oracle code in harness/, rapidcheck's generators. Bounded to programs of <= 4 fibers x <= 6-8 ops and the "
                    "schedules generated; nothing is proved.")

PROPS = {
    "C03": {
        "level": "exploration",
        "technique": "property-based testing over (client program x schedule) on a deterministic fiber runtime; oracle = happens-before monitor + mask-chain/currency/monotonicity invariants over the read history",
        "design_ref": "DESIGN.md §5 C03",
        "text": "Generated lr_guarded clients (modify/lock_shared/try forms, handles held across steps) run under generated schedules on the vrt fiber "
                "runtime with the real lr_guarded header compiled against modelled atomics/mutexes. Every payload access is race-checked by a vector-clock "
                "monitor and every read is checked against the chain of committed states. Exploration only: finds violations within the generated bound, proves nothing.",
        "assumptions": ["vrt models of std::atomic (SC for seq_cst), std::mutex and this_thread::yield are faithful to the standard's wording",
                        "programs bounded to 4 fibers x 4 (quick) / 6 (thorough) operations"],
        "stages": [
            {"family": "lrcow", "flavour": "plain", "target": "C03", "cases": (400000, 6000000), "maxsec": (40, 400)},
        ],
    },
}

ALL_IDS = ["C%02d" % i for i in range(1, 21)]
NOT_YET = "check not built yet in this session (planned, see DESIGN.md §5); not claimed until its machinery exists and has passed its mutant self-test"


def write_manifest():
    checks = []
    for pid in ALL_IDS:
        if pid not in PROPS:
            continue
        p = PROPS[pid]
        checks.append({
            "property_id": pid,
            "quick_cmd": f"./check {pid} --tier quick",
            "thorough_cmd": f"./check {pid} --tier thorough",
            "evidence_file": f"/verif/evidence/{pid}.json",
            "replay_cmd_template": "./check replay {path}",
            "engine": "vrt+rapidcheck",
            "level_claimed": {"category": p["level"], "text": p["text"], "design_ref": p["design_ref"]},
            "level_note": EXPLORATION_NOTE,
            "technique": p["technique"],
        })
    man = {
        "version": 1,
        "setup_cmd": "./check build",
        "hooks": {
            "guard": "GMLC_CONCURRENCY_VERIF",
            "enable": "no source hooks: the harness interposes on std:: through its include order (vrt/shim.hpp, '#define std vstd' around the unmodified headers); the guard macro is defined on harness compile lines only",
            "baseline_off_cmd": "cmake --build /repo/_build && ctest --test-dir /repo/_build -j8 --timeout 900",
            "source_commits": [],
            "add_only": True,
        },
        "engines": [
            {"name": "vrt+rapidcheck", "path": "/verif/vrt", "serves_properties": [c["property_id"] for c in checks],
             "kind_free_text": "deterministic ucontext-fiber runtime with modelled mutex/cv/atomic (schedule, time-outs, spurious wake-ups, stale reads, faults are generated data); rapidcheck generates and shrinks (program, schedule) cases; libFuzzer targets decode bytes into the same cases"},
        ],
        "checks": checks,
        "not_applicable": [{"property_id": pid, "reason": NOT_YET} for pid in ALL_IDS if pid not in PROPS],
        "notes": "All checks: exit 0 held / exit 1 + 'VIOLATION property=<id> replay=<path>' / exit 2 BUILD-ERROR / exit 3 GENERATOR-UNHEALTHY. VERIF_SEED seeds every generated choice.",
    }
    with open(os.path.join(VERIF, "MANIFEST.json"), "w") as f:
        json.dump(man, f, indent=1)
        f.write("\n")
