"""Tables that drive ./check: build flavours, family harnesses, and per-property stages.

A *stage* = (family binary, flavour, target registered inside that binary, case budget quick/thorough).
`cases` are totals over all workers.  Quick budgets are calibrated to roughly 15-30 s of search on 16 cores.
"""
import json, os

VERIF = os.path.dirname(os.path.abspath(__file__))

FLAVOURS = {
    "plain": {"cxx": "g++", "flags": "-O1 -g -fno-omit-frame-pointer", "libs": "-lrapidcheck"},
    # the fiber runtime with 272 fiber slots instead of 8: populations of hundreds of blocked waiters / participants
    "crowd": {"cxx": "g++", "flags": "-O1 -g -fno-omit-frame-pointer -DVRT_MAXF=272", "libs": "-lrapidcheck"},
    "asan": {"cxx": "clang++", "flags": "-O1 -g -fno-omit-frame-pointer -fsanitize=address,undefined -fno-sanitize-recover=undefined",
             "libs": "-lrapidcheck",
             "env": {"ASAN_OPTIONS": "detect_leaks=0:abort_on_error=1:detect_stack_use_after_return=0:allocator_may_return_null=1",
                     "UBSAN_OPTIONS": "print_stacktrace=1:halt_on_error=1"}},
    "fuzz": {"cxx": "clang++", "flags": "-O1 -g -fno-omit-frame-pointer -fsanitize=fuzzer,address,undefined -fno-sanitize-recover=undefined -DVRT_FUZZ",
             "libs": "-lrapidcheck",
             "env": {"ASAN_OPTIONS": "detect_leaks=0:abort_on_error=1:detect_stack_use_after_return=0", "UBSAN_OPTIONS": "halt_on_error=1"}},
    "tsan": {"cxx": "clang++", "flags": "-O1 -g -fno-omit-frame-pointer -fsanitize=thread", "libs": "-lrapidcheck -lpthread",
             "env": {"TSAN_OPTIONS": "halt_on_error=1:exitcode=66:second_deadlock_stack=1:report_signal_unsafe=0:history_size=4"}},
    "rtasan": {"cxx": "clang++", "flags": "-O1 -g -fno-omit-frame-pointer -fsanitize=address,undefined -fno-sanitize-recover=undefined", "libs": "-lrapidcheck -lpthread",
               "env": {"ASAN_OPTIONS": "detect_leaks=1:abort_on_error=0:exitcode=67", "UBSAN_OPTIONS": "halt_on_error=1:print_stacktrace=1"}},
}

FAMILIES = {
    "lrcow": {"src": "lrcow.cpp"},
    "locks": {"src": "locks.cpp"},
    "rcu": {"src": "rcu.cpp"},
    "prims": {"src": "prims.cpp"},
    "tripwire": {"src": "tripwire.cpp"},
    "deferred": {"src": "deferred.cpp"},
    "c14": {"src": "c14.cpp"},
    "containers": {"src": "containers.cpp"},
    "atomicreg": {"src": "atomicreg.cpp"},
    "rt": {"src": "rt_stress.cpp"},
}

EXPLORATION_NOTE = ("Trusted base: the vrt runtime's model of std::mutex/timed_mutex/shared_mutex/shared_timed_mutex/condition_variable/atomic "
                    "(DESIGN.md §3.1), the oracle code in harness/, rapidcheck's generators. Bounded to programs of <= 4 fibers x <= 6-8 ops and the "
                    "schedules generated; nothing is proved.")

PROPS = {
    "C01": {
        "level": "exploration",
        "technique": "property-based testing over (wrapper config x client program x schedule) on a deterministic fiber runtime; oracle = happens-before monitor + last-write/lost-update model + deadlock and leaked-lock detection; plus plain-old-data payloads judged by a dirty/clean value protocol",
        "design_ref": "DESIGN.md §5 C01",
        "text": "Generated clients mix lock/try_lock/try_lock_for/until/load/store/operator=/modify on guarded, guarded_opt, shared_guarded, shared_guarded_opt and ordered_guarded over all four "
                "mutex types, under generated schedules with modelled mutexes. A vector-clock monitor flags any unordered pair of payload accesses, a last-write model flags lost updates and stale "
                "reads, the scheduler flags deadlock, and a final acquisition flags leaked locks. Exploration within the generated bound.",
        "assumptions": ["vrt mutex model follows [thread.mutex]: non-recursive, no fairness, try_lock never fails spuriously", "programs bounded to 4 fibers x 4 (quick) / 6 (thorough) operations"],
        "stages": [{"family": "locks", "flavour": "plain", "target": "C20g", "cases": (150000, 2000000), "maxsec": (20, 200)},
                   {"family": "locks", "flavour": "plain", "target": "C01p", "cases": (150000, 2000000), "maxsec": (20, 200)},
                   {"family": "locks", "flavour": "plain", "target": "C01", "cases": (400000, 6000000), "maxsec": (40, 400)}],
    },
    "C02": {
        "level": "exploration",
        "technique": "property-based testing over (wrapper config x reader/writer program x schedule); oracle = happens-before monitor, no-write-while-shared-handle-alive invariant, two-reader rendezvous must complete, try_lock_shared must succeed among readers",
        "design_ref": "DESIGN.md §5 C02",
        "text": "Generated reader/writer clients on shared_guarded, shared_guarded_opt, ordered_guarded (and deferred_guarded in its own stage) over four mutex types. The HB monitor and a live-handle "
                "invariant decide 'readers and writers never overlap'; generated two-reader rendezvous pairs and the model mutex's ground truth decide 'readers can share'. Exploration only.",
        "assumptions": ["vrt shared-mutex model follows [thread.sharedmutex]", "programs bounded to 4 fibers x 4/6 operations"],
        "stages": [{"family": "locks", "flavour": "plain", "target": "C02", "cases": (400000, 6000000), "maxsec": (40, 400)},
                   {"family": "deferred", "flavour": "plain", "target": "C02d", "cases": (300000, 4000000), "maxsec": (30, 300)}],
    },
    "C04": {
        "level": "exploration",
        "technique": "property-based testing over (writer/reader program with commits, cancels, handle moves and long-lived snapshots x schedule); oracle = snapshot immutability and liveness, interval bounds and chain membership for every write handle's initial value, real-time publication, commit ledger, payload instance count; the shared_ptr objects holding the committed value are race-checked by the happens-before monitor (model of std::shared_ptr)",
        "design_ref": "DESIGN.md §5 C04",
        "text": "Generated cow_guarded writers and readers run under generated schedules; snapshots are re-read after later commits, each write handle's starting value is checked against the sequence of "
                "committed states with two-sided interval bounds, cancelled data must never become visible, cancel must free the writer lock while the handle object lives on, and every private copy "
                "is destroyed exactly once. Exploration only.",
        "assumptions": ["the shared_ptr copy inside the left-right read section is real (unmodelled) code: protocol errors there are the business of C03 and of the real-thread stage",
                        "payload destruction is exempt from the happens-before check because reference counts are unmodelled; liveness is still checked"],
        "stages": [{"family": "lrcow", "flavour": "plain", "target": "C20cow", "cases": (150000, 2000000), "maxsec": (20, 200)},
                   {"family": "lrcow", "flavour": "plain", "target": "C04", "cases": (600000, 8000000), "maxsec": (40, 400)},
                   {"family": "rt", "flavour": "tsan", "target": "RTcow", "cases": (6000, 150000), "maxsec": (20, 400), "stochastic": True, "min_nontrivial_frac": 0.5}],
    },
    "C05": {
        "level": "exploration",
        "technique": "property-based testing over (reader/writer/short-handle program x schedule) with a quarantining allocator; oracle = any step into a freed block (modelled atomics, iterator dereference) plus the direct reclamation rule at every deallocation",
        "design_ref": "DESIGN.md §5 C05",
        "text": "Generated rcu_list clients (pausing readers, erasing and pushing writers, short-lived handles that drive reclamation) run under generated schedules; the list allocates through a quarantining "
                "allocator, every modelled atomic and every iterator dereference checks that it does not touch a freed block, and each node deallocation is checked against the set of handles that were "
                "registered before the erase. Exploration only.",
        "assumptions": ["'in use when the erase happened' is read as: the handle's first access returned before erase() was called", "4 fibers x 4/6 operations, lists of <= ~10 elements"],
        "stages": [{"family": "rcu", "flavour": "plain", "target": "C05f", "cases": (150000, 2000000), "maxsec": (20, 200)},
                   {"family": "rcu", "flavour": "plain", "target": "C13b", "cases": (15000, 200000), "maxsec": (25, 250)},
                   {"family": "rcu", "flavour": "plain", "target": "C12r", "cases": (60000, 800000), "maxsec": (20, 200)},
                   {"family": "rcu", "flavour": "plain", "target": "C05", "cases": (600000, 8000000), "maxsec": (45, 420)}],
    },
    "C09": {
        "level": "exploration",
        "technique": "property-based testing over (participants x generations x drop plan x schedule x spurious wake-ups) on modelled mutex/condition_variable; oracle = per-generation arrival counters at every return, deadlock detection; populations of up to 257 participants in the 272-fiber build",
        "design_ref": "DESIGN.md §5 C09",
        "text": "N in 2..5 participants run G in 1..4 generations with generated drop-outs, pauses and spurious wake-ups; each return from the g-th wait is checked against the number of participants "
                "that belong to generation g, and a lost wake-up shows up as a scheduler-level deadlock. Exploration only.",
        "assumptions": ["participants that dropped never call the barrier again (class precondition)", "condition_variable model: notify with no waiter is lost, spurious wake-ups are generated"],
        "stages": [{"family": "prims", "flavour": "plain", "target": "C09", "cases": (600000, 8000000), "maxsec": (40, 400)},
                   {"family": "prims", "flavour": "crowd", "target": "C09c", "cases": (1500, 30000), "maxsec": (40, 400)}],
    },
    "C10": {
        "level": "exploration",
        "technique": "property-based testing over (arrive/wait/arrive_and_wait programs x schedule x spurious wake-ups); oracle = number of started arrivals at every wait return, deadlock detection (lost wake-up, arrive that waits); populations of up to 257 blocked waiters in the 272-fiber build",
        "design_ref": "DESIGN.md §5 C10",
        "text": "Generated programs of arrivers, waiters and arrive_and_wait participants (count 1..4, total arrivals >= count) run under generated schedules with the waiter's unlocked fast path, the "
                "arrival and spurious wake-ups interleaved at every visible step. Exploration only.",
        "assumptions": ["'after at least count arrive calls have taken place' is checked in its weakest sound form: that many arrive calls have started"],
        "stages": [{"family": "prims", "flavour": "plain", "target": "C10", "cases": (800000, 10000000), "maxsec": (40, 400)},
                   {"family": "prims", "flavour": "crowd", "target": "C10c", "cases": (3000, 60000), "maxsec": (40, 400)}],
    },
    "C11": {
        "level": "exploration",
        "technique": "property-based testing over (controller op sequence x waiters x schedule x time-outs x spurious wake-ups); oracle = two-bit sequential model for the controller, interval rules for waiter results, deadlock detection; populations of up to 257 blocked waiters in the 272-fiber build",
        "design_ref": "DESIGN.md §5 C11",
        "text": "One controller issues generated activate/trigger/reset sequences checked call by call against a two-bit model; waiters snapshot the model at call time and their results are judged with "
                "interval reasoning (abstaining when a controller call was in flight); lost wake-ups appear as deadlock. Exploration only.",
        "assumptions": ["single controller (racing activate calls are not generated)", "untimed waits are generated only when the controller's final state releases them"],
        "stages": [{"family": "prims", "flavour": "plain", "target": "C11", "cases": (800000, 10000000), "maxsec": (40, 400)},
                   {"family": "prims", "flavour": "crowd", "target": "C11c", "cases": (3000, 60000), "maxsec": (40, 400)}],
    },
    "C16": {
        "level": "exploration",
        "technique": "model-based property testing: sequential command sequences on both classes against a per-object destruction ledger, and concurrent adders/droppers/destroyers with generated lock time-outs; oracle = destroyed exactly once, never while owned, callback once before reaping, no modelled mutex held in callback/destructor, re-entry without self-deadlock, size accounting",
        "design_ref": "DESIGN.md §5 C16",
        "text": "Generated add / shared add / duplicate add / drop-owner / destroyObjects / destroyObjects(delay) / size sequences run on DelayedDestructor and DelayedDestructorSingleThread with optional callbacks; "
                "element destructors and callbacks re-enter the container (size, add, destroyObjects). The modelled timed_mutex flags any callback or destructor under the lock and any self-deadlock. Exploration only.",
        "assumptions": ["re-entry is not generated while the container itself is being destroyed; weak_ptr resurrection is out of scope", "a missing lock around the std::vector is invisible to the fiber runtime (no scheduling point inside): that class of change is the real-thread/TSan stage's job"],
        "stages": [{"family": "containers", "flavour": "plain", "target": "C20dd", "cases": (150000, 2000000), "maxsec": (20, 200)},
                   {"family": "containers", "flavour": "plain", "target": "C20dds", "cases": (150000, 2000000), "maxsec": (20, 200)},
                   {"family": "containers", "flavour": "plain", "target": "C16s", "cases": (300000, 4000000), "maxsec": (30, 300)},
                   {"family": "containers", "flavour": "plain", "target": "C16", "cases": (400000, 6000000), "maxsec": (40, 400)},
                   {"family": "containers", "flavour": "plain", "target": "C16t", "cases": (150000, 2000000), "maxsec": (20, 200)},
                   {"family": "rt", "flavour": "tsan", "target": "RTdd", "cases": (6000, 150000), "maxsec": (20, 400), "stochastic": True, "min_nontrivial_frac": 0.5}],
    },
    "C17": {
        "level": "exploration",
        "technique": "model-based property testing under AddressSanitizer+UBSan: sequential call sequences against a name->(object,tags) map model with nondeterministic predicate removal, and linearizability search (WGL) on concurrent histories; predicates contain scheduling points",
        "design_ref": "DESIGN.md §5 C17",
        "text": "Generated add / addType / copy / remove(name) / remove(predicate) / find / findObject(pred[,type]) / checkObjectType / getObjects / empty sequences are checked call by call against a map model in an "
                "ASan+UBSan build (memory safety of every sequence), and generated 3-fiber histories plus a final complete observation are searched for a linearization. Exploration only.",
        "assumptions": ["addType is only generated on names that are present and never removed (the property does not specify orphan tags)", "tags compared as sets over {0,1,2}"],
        "stages": [{"family": "containers", "flavour": "plain", "target": "C20soh", "cases": (150000, 2000000), "maxsec": (20, 200)},
                   {"family": "containers", "flavour": "asan", "target": "C17s", "cases": (60000, 1000000), "maxsec": (40, 400)},
                   {"family": "containers", "flavour": "plain", "target": "C17s", "cases": (300000, 3000000), "maxsec": (30, 300)},
                   {"family": "containers", "flavour": "plain", "target": "C17", "cases": (300000, 4000000), "maxsec": (40, 400)},
                   {"family": "rt", "flavour": "tsan", "target": "RTsoh", "cases": (6000, 150000), "maxsec": (20, 400), "stochastic": True, "min_nontrivial_frac": 0.5}],
    },
    "C18": {
        "level": "exploration",
        "technique": "model-based property testing: sequential sequences against a per-key life-cycle model, linearizability search on concurrent histories of setters/fulfillers/consumers/queries, destruction with pending futures; real std::promise/future objects inspected without blocking",
        "design_ref": "DESIGN.md §5 C18",
        "text": "Generated getFuture / setDelayedValue (copy and move, int and string keys) / fulfillAllPromises / finishedWithValue / isRecognized / isCompleted / consume sequences for X in {int, string}; "
                "every future must become ready exactly once with the value the life-cycle model predicts (first set, else fulfil value, else X{} at destruction); any std::future_error is a violation. Exploration only.",
        "assumptions": ["each key is requested at most once (as the property states)", "consumers poll futures (wait_for(0)) instead of blocking the single OS thread"],
        "stages": [{"family": "containers", "flavour": "plain", "target": "C18s", "cases": (300000, 4000000), "maxsec": (30, 300)},
                   {"family": "containers", "flavour": "plain", "target": "C18f", "cases": (150000, 2000000), "maxsec": (20, 200)},
                   {"family": "containers", "flavour": "plain", "target": "C18", "cases": (300000, 4000000), "maxsec": (40, 400)},
                   {"family": "rt", "flavour": "tsan", "target": "RTdobj", "cases": (6000, 150000), "maxsec": (20, 400), "stochastic": True, "min_nontrivial_frac": 0.5}],
    },
    "C19": {
        "level": "exploration",
        "technique": "property-based testing over (trigger life cycles incl. moves x detectors x line kinds x schedule x reads-from choices in a C++11 weak-memory model); oracle = one-way/monotone trip flags, per-line independence, happens-before monitor on the published datum, crash-freedom",
        "design_ref": "DESIGN.md §5 C19",
        "text": "Generated trigger life cycles (plain, moved with either destruction order, move-assigned) and polling detectors on explicit, indexed and declared lines run under generated schedules, "
                "half of them with stale reads allowed where the memory orders in the source allow them; a datum written before the trip is read after observing it under the vector-clock monitor. "
                "A crash of the worker (e.g. destroying a moved-from trigger) is minimised by delta debugging and reported. Exploration only.",
        "assumptions": ["one publishing fiber per line (the property speaks of 'the triggering thread')", "the line whose armed trigger is overwritten by move-assignment is not observed (unspecified)",
                        "weak-memory model fixes modification order to execution order (under-approximation of C++11)"],
        "stages": [{"family": "tripwire", "flavour": "plain", "target": "C19", "cases": (800000, 10000000), "maxsec": (40, 400)},
                   {"family": "rt", "flavour": "tsan", "target": "RTtw", "cases": (3000, 40000), "maxsec": (20, 400), "stochastic": True, "min_nontrivial_frac": 0.5}],
    },
    "C12": {
        "level": "exploration",
        "technique": "model-based property testing: sequential command sequences against a reference list after every command, and concurrent traversals checked with position keys taken from the writers' mutex order (strictly increasing, stable elements visited, final contents equal the model)",
        "design_ref": "DESIGN.md §5 C12",
        "text": "Sequential generated command sequences are compared with a reference list after every command; concurrent generated programs check every traversal for list order, no duplicates, no invented values, "
                "no skipped stable element, and the final contents against the model in mutex order. Exploration only.",
        "assumptions": ["unique element values", "4 fibers x 4/6 operations (concurrent), up to 12/24 commands (sequential)"],
        "stages": [{"family": "rcu", "flavour": "plain", "target": "C12s", "cases": (300000, 3000000), "maxsec": (20, 200)},
                   {"family": "rcu", "flavour": "plain", "target": "C12", "cases": (500000, 6000000), "maxsec": (40, 400)},
                   {"family": "rcu", "flavour": "plain", "target": "C12f", "cases": (200000, 3000000), "maxsec": (25, 300)},
                   {"family": "rcu", "flavour": "plain", "target": "C12r", "cases": (100000, 1000000), "maxsec": (15, 150)}],
    },
    "C13": {
        "level": "exploration",
        "technique": "property-based testing over (element type x handle/push/erase program x schedule) with an allocator ledger oracle: every allocate/construct matched by exactly one destroy/deallocate, no null or unknown pointer, nothing live after list destruction; instance counting on the payload; bursts of up to 60 short write handles behind long-lived readers; re-entrant element constructors under a recursive mutex",
        "design_ref": "DESIGN.md §5 C13",
        "text": "Generated programs over T in {Tracked, std::string, int} run with a strict ledger allocator; any destroy/deallocate of null, of a dead or unknown block, any leak at list destruction and any "
                "construction/destruction imbalance of the payload is a violation. Exploration only.",
        "assumptions": ["list destroyed only after all handles are released (as the property states)"],
        "stages": [{"family": "rcu", "flavour": "plain", "target": "C13", "cases": (500000, 6000000), "maxsec": (40, 400)},
                   {"family": "rcu", "flavour": "plain", "target": "C13f", "cases": (300000, 4000000), "maxsec": (30, 300)},
                   {"family": "rcu", "flavour": "plain", "target": "C12r", "cases": (100000, 1500000), "maxsec": (20, 200)},
                   {"family": "rcu", "flavour": "plain", "target": "C13b", "cases": (20000, 300000), "maxsec": (30, 300)}],
    },
    "C06": {
        "level": "exploration",
        "technique": "property-based testing over (submitter/reader/drainer program x mutex type x schedule); oracle = exactly-once ledger per submitted function, exclusivity flags + happens-before monitor, real-time order check, quiescence check with futures",
        "design_ref": "DESIGN.md §5 C06",
        "text": "Generated submitters (modify_detach, modify_async with value/void/throwing functions), readers and try-readers run on deferred_guarded over all four mutex types; each function's execution "
                "count, exclusivity, order against returned-before-called pairs, and the state after quiescence plus one lock_shared (all executed once, value = all bits, futures ready with value or "
                "exception) are checked. Exploration only.",
        "assumptions": ["real std::packaged_task/future objects are used but never blocked on (only inspected after quiescence)"],
        "stages": [{"family": "deferred", "flavour": "plain", "target": "C20d", "cases": (150000, 2000000), "maxsec": (20, 200)},
                   {"family": "deferred", "flavour": "plain", "target": "C06", "cases": (600000, 8000000), "maxsec": (40, 400)}],
    },
    "C08": {
        "level": "exploration",
        "technique": "property-based testing over (wrapper config x enable flag x holder/contender program with handle life cycles x schedule and time-outs); oracle = model mutex ownership ground truth at every return, zero-mutex-ops in disabled mode, livelock detector for blocking try calls",
        "design_ref": "DESIGN.md §5 C08",
        "text": "Every try/timed acquisition form and handle life cycle (destroy, unlock, move-construct, move-assign) is generated against holders that keep the lock while a contender is inside a try call. "
                "Handle truthiness is compared with the modelled mutex's owner at each return; disabled mode must execute no mutex operation; a try call that blocks shows up as livelock. Exploration only.",
        "assumptions": ["time-outs are generated data: a timed wait gives up after a generated number of scheduler steps (at most 80)", "truthiness of moved-from handles is not asserted"],
        "stages": [{"family": "locks", "flavour": "plain", "target": "C08", "cases": (400000, 6000000), "maxsec": (40, 400)},
                   {"family": "deferred", "flavour": "plain", "target": "C08d", "cases": (200000, 3000000), "maxsec": (25, 300)}],
    },
    "C14": {
        "level": "exploration",
        "technique": "generated freeze points: a writer fiber is suspended after k of its own visible steps (k over the whole operation) and readers must complete solo within a step bound with zero blocking operations; then writer completion after release (deadlock/livelock detector); plus generated real-thread programs under ThreadSanitizer in which shared handles migrate between threads and the writer must still complete (watchdog)",
        "design_ref": "DESIGN.md §5 C14",
        "text": "For each writer operation (lr modify, cow commit, cow lock+cancel, rcu push_front/push_back/erase) and each generated freeze point inside it, 1-2 readers perform their read acquisition "
                "(all try forms; full traversal for rcu) while the writer is frozen; any contended lock, condition wait or yield-spin inside the acquisition, or failure to finish, is a violation; the "
                "thawed writer must finish once handles are released. Exploration over generated (op, freeze point, reader variant, schedule).",
        "assumptions": ["'visible step' granularity = modelled mutex/atomic/cv operations and payload access windows"],
        "stages": [{"family": "c14", "flavour": "plain", "target": "C14", "cases": (500000, 6000000), "maxsec": (40, 400)},
                   # cow_guarded write handles (commit, cancel with the cancelled handle object kept alive, moves): the next writer must complete
                   {"family": "lrcow", "flavour": "plain", "target": "C04", "cases": (150000, 2000000), "maxsec": (20, 200)},
                   # real threads: shared handles handed from thread to thread (no fiber model of thread_local / per-thread state), writer must still complete
                   {"family": "rt", "flavour": "tsan", "target": "RTlr", "cases": (3000, 60000), "maxsec": (25, 300), "stochastic": True, "min_nontrivial_frac": 0.5}],
    },
    "C15": {
        "level": "exploration",
        "technique": "property-based testing over (operation history x schedule); oracle = sequential register model in execution order (every read returns the latest write, every RMW uninterrupted) and WGL linearizability search on recorded histories",
        "design_ref": "DESIGN.md §5 C15",
        "text": "Generated load/store/assignment/exchange/compare_exchange histories on atomic_guarded and load/store/assignment on guarded, guarded_opt, ordered_guarded, deferred_guarded under generated "
                "schedules; a Tracked payload makes torn copies observable. Exploration only.",
        "assumptions": ["values from a small domain", "2-4 fibers x <= 6 operations"],
        "stages": [{"family": "atomicreg", "flavour": "plain", "target": "C20a", "cases": (150000, 2000000), "maxsec": (20, 200)},
                   {"family": "locks", "flavour": "plain", "target": "C15g", "cases": (300000, 4000000), "maxsec": (40, 400)},
                   {"family": "locks", "flavour": "plain", "target": "C01p", "cases": (150000, 2000000), "maxsec": (20, 200)},
                   {"family": "deferred", "flavour": "plain", "target": "C15d", "cases": (300000, 4000000), "maxsec": (30, 300)},
                   {"family": "atomicreg", "flavour": "plain", "target": "C15as", "cases": (400000, 4000000), "maxsec": (20, 200)},
                   {"family": "atomicreg", "flavour": "plain", "target": "C15a", "cases": (400000, 6000000), "maxsec": (30, 300)},
                   {"family": "rt", "flavour": "tsan", "target": "RTatomic", "cases": (5000, 120000), "maxsec": (20, 400), "stochastic": True, "min_nontrivial_frac": 0.5}],
    },
    "C03": {
        "level": "exploration",
        "technique": "property-based testing over (client program x schedule) on a deterministic fiber runtime; oracle = happens-before monitor + mask-chain/currency/monotonicity invariants over the read history; reader populations up to 65 537 handles",
        "design_ref": "DESIGN.md §5 C03",
        "text": "Generated lr_guarded clients (modify/lock_shared/try forms, handles held across steps) run under generated schedules on the vrt fiber "
                "runtime with the real lr_guarded header compiled against modelled atomics/mutexes. Every payload access is race-checked by a vector-clock "
                "monitor and every read is checked against the chain of committed states. Exploration only: finds violations within the generated bound, proves nothing.",
        "assumptions": ["vrt models of std::atomic (SC for seq_cst), std::mutex and this_thread::yield are faithful to the standard's wording",
                        "programs bounded to 4 fibers x 4 (quick) / 6 (thorough) operations"],
        "stages": [
            {"family": "lrcow", "flavour": "plain", "target": "C03", "cases": (400000, 6000000), "maxsec": (40, 400)},
            {"family": "lrcow", "flavour": "plain", "target": "C03c", "cases": (3000, 60000), "maxsec": (40, 300)},
            {"family": "lrcow", "flavour": "plain", "target": "C20lr", "cases": (200000, 3000000), "maxsec": (25, 300)},
        ],
    },
}

PROPS["C20"] = {
    "level": "fault_enumeration",
    "technique": "fault-plan generation: the k-th invocation of user code (functor / payload copy / assignment / comparison / callback / predicate) throws, combined with generated programs and schedules; oracle = no modelled mutex held after the throw, other fibers keep acquiring, final acquisition succeeds, lr_guarded all-or-nothing chain check, documented propagation/capture",
    "design_ref": "DESIGN.md §5 C20",
    "text": "Every concurrent family is re-run with a generated fault plan (which invocation of user code throws). After the injected throw the throwing fiber must hold no modelled mutex, the exception must "
            "surface where documented (propagate from modify/read/store/load/cow::lock/SOH predicates, be captured in modify_async futures, be swallowed by destroyObjects), the wrapper stays usable, and "
            "lr_guarded is all-or-nothing (first-application throw: absent; second-application throw: present; both copies agree). Fault positions are generated, not exhaustively enumerated.",
    "assumptions": ["faults inside lr_guarded's own rollback copy are excluded (documented as indeterminate)", "fault positions k in 1..12 per case"],
    "stages": [
        {"family": "lrcow", "flavour": "plain", "target": "C20lr", "cases": (300000, 4000000), "maxsec": (25, 300)},
        {"family": "locks", "flavour": "plain", "target": "C20g", "cases": (300000, 4000000), "maxsec": (25, 300)},
        {"family": "atomicreg", "flavour": "plain", "target": "C20a", "cases": (200000, 3000000), "maxsec": (20, 200)},
        {"family": "lrcow", "flavour": "plain", "target": "C20cow", "cases": (200000, 3000000), "maxsec": (25, 300)},
        {"family": "deferred", "flavour": "plain", "target": "C20d", "cases": (200000, 3000000), "maxsec": (25, 300)},
        {"family": "containers", "flavour": "plain", "target": "C20dd", "cases": (200000, 3000000), "maxsec": (25, 300)},
        {"family": "containers", "flavour": "plain", "target": "C20dds", "cases": (150000, 2000000), "maxsec": (20, 200)},
        {"family": "containers", "flavour": "plain", "target": "C20soh", "cases": (200000, 3000000), "maxsec": (25, 300)},
    ],
}

_W = ["--weak", "1"]
PROPS["C07"] = {
    "level": "exploration",
    "technique": "property-based testing with a vector-clock happens-before monitor on every payload access, under a generated C++11 weak-memory model (reads-from choices for every non-seq_cst-constrained load are generated data); complemented by generated real-thread programs under ThreadSanitizer",
    "design_ref": "DESIGN.md §5 C07",
    "text": "The generated clients of lr_guarded, cow_guarded, rcu_list, deferred_guarded, Latch, Barrier, TriggerVariable, TripWire and the lock wrappers are re-run with weak-memory mode on: each modelled atomic "
            "keeps its store history and a load may return any store the C++11 coherence and seq_cst rules admit (choice generated). The happens-before monitor then decides whether each granted access is "
            "ordered after all conflicting earlier ones, including publication clients (data written before arrive/wait/trigger/trigger destruction read after the matching observation). Exploration only.",
    "assumptions": ["modification order is fixed to execution order (under-approximation of C++11: every behaviour produced is allowed, not every allowed behaviour is produced)",
                    "compiler reorderings of non-atomic code are outside the model", "plain internal fields (std::map/vector internals, Barrier::count_) are covered by the ThreadSanitizer stage, on x86 executions only"],
    "stages": [
        {"family": "lrcow", "flavour": "plain", "target": "C03", "cases": (300000, 4000000), "maxsec": (25, 300), "args": _W},
        {"family": "rcu", "flavour": "plain", "target": "C05", "cases": (300000, 4000000), "maxsec": (25, 300), "args": _W},
        {"family": "prims", "flavour": "plain", "target": "C10", "cases": (300000, 3000000), "maxsec": (20, 200), "args": _W},
        {"family": "prims", "flavour": "plain", "target": "C11", "cases": (300000, 3000000), "maxsec": (20, 200), "args": _W},
        {"family": "prims", "flavour": "plain", "target": "C09", "cases": (150000, 2000000), "maxsec": (20, 200), "args": _W},
        {"family": "tripwire", "flavour": "plain", "target": "C19", "cases": (300000, 3000000), "maxsec": (20, 200), "args": _W},
        {"family": "lrcow", "flavour": "plain", "target": "C04", "cases": (200000, 3000000), "maxsec": (25, 300), "args": _W},
        {"family": "deferred", "flavour": "plain", "target": "C06", "cases": (200000, 3000000), "maxsec": (25, 300), "args": _W},
        {"family": "rcu", "flavour": "plain", "target": "C12", "cases": (200000, 3000000), "maxsec": (25, 300), "args": _W},
        {"family": "locks", "flavour": "plain", "target": "C02", "cases": (200000, 3000000), "maxsec": (25, 300), "args": _W},
        {"family": "lrcow", "flavour": "plain", "target": "C20lr", "cases": (200000, 3000000), "maxsec": (25, 300), "args": _W},
        {"family": "rt", "flavour": "tsan", "target": "RT", "cases": (12000, 400000), "maxsec": (25, 600), "stochastic": True, "min_nontrivial_frac": 0.5},
    ],
}

# bounded exhaustive schedule enumeration of fixed small programs (enum/*.case): (property, family, target, file, (K quick, K thorough))
_ENUM = [("C01", "locks", "C01", "enum/C01-guarded-mutex.case", (3, 4)), ("C02", "locks", "C02", "enum/C02-shared-rendezvous.case", (3, 4)),
         ("C03", "lrcow", "C03", "enum/C03-1w2m-1r2r.case", (4, 5)), ("C03", "lrcow", "C03", "enum/C03-2w1m-1r2r.case", (3, 4)),
         ("C04", "lrcow", "C04", "enum/C04-commit-cancel-snapshots.case", (2, 3)), ("C05", "rcu", "C05", "enum/C05-walk-erase-short.case", (2, 3)),
         ("C06", "deferred", "C06", "enum/C06-reader-detach-async.case", (3, 4)), ("C08", "locks", "C08", "enum/C08-gopt-timed.case", (3, 4)),
         ("C09", "prims", "C09", "enum/C09-3p-2g-drops.case", (3, 4)), ("C10", "prims", "C10", "enum/C10-count2.case", (4, 5)),
         ("C11", "prims", "C11", "enum/C11-activate-trigger-reset.case", (3, 4)), ("C12", "rcu", "C12", "enum/C12-traverse-erase-push.case", (2, 3)),
         ("C13", "rcu", "C13", "enum/C13-handles-erase.case", (2, 3)), ("C19", "tripwire", "C19", "enum/C19-move-trigger-detectors.case", (3, 4))]
for _pid, _fam, _tgt, _file, _k in _ENUM:
    PROPS[_pid]["stages"].append({"family": _fam, "flavour": "plain", "target": _tgt, "enum": {"mode": "sched", "file": _file, "maxpre": _k}, "cases": (0, 0), "min_nontrivial_frac": 0.0})
PROPS["C14"]["stages"].append({"family": "c14", "flavour": "plain", "target": "C14", "enum": {"mode": "cfg", "cap": (3200000, 3200000)}, "cases": (0, 0), "min_nontrivial_frac": 0.0})

# second compiler: a slice of every property's main fiber-runtime target is also run from a clang++ build (with AddressSanitizer + UBSan).
# Behaviour that the language leaves to the implementation (order of evaluation of function arguments, layout, inlining) differs between
# g++ and clang++; seeded change C03-h is wrong only under clang's left-to-right argument evaluation.
_CLANG = [("C01", "locks", "C01"), ("C02", "locks", "C02"), ("C03", "lrcow", "C03"), ("C04", "lrcow", "C04"), ("C05", "rcu", "C05"), ("C06", "deferred", "C06"),
          ("C07", "lrcow", "C03w"), ("C08", "locks", "C08"), ("C09", "prims", "C09"), ("C10", "prims", "C10"), ("C11", "prims", "C11"), ("C12", "rcu", "C12"),
          ("C13", "rcu", "C13"), ("C14", "c14", "C14"), ("C15", "atomicreg", "C15a"), ("C16", "containers", "C16"), ("C17", "containers", "C17"),
          ("C18", "containers", "C18"), ("C19", "tripwire", "C19"), ("C20", "lrcow", "C20lr")]
for _pid, _fam, _tgt in _CLANG:
    PROPS[_pid]["stages"].append({"family": _fam, "flavour": "asan", "target": _tgt, "cases": (40000, 600000), "maxsec": (25, 250)})

# libFuzzer campaigns (thorough tier only): (property, family, target)
_FUZZ = [("C01", "locks", "C01"), ("C02", "locks", "C02"), ("C03", "lrcow", "C03"), ("C04", "lrcow", "C04"), ("C05", "rcu", "C05"), ("C06", "deferred", "C06"),
         ("C08", "locks", "C08"), ("C09", "prims", "C09"), ("C10", "prims", "C10"), ("C11", "prims", "C11"), ("C12", "rcu", "C12"), ("C13", "rcu", "C13"), ("C13", "rcu", "C13f"),
         ("C14", "c14", "C14"), ("C15", "atomicreg", "C15a"), ("C16", "containers", "C16"), ("C17", "containers", "C17s"), ("C18", "containers", "C18"),
         ("C19", "tripwire", "C19"), ("C20", "lrcow", "C20lr"), ("C20", "deferred", "C20d")]
for _pid, _fam, _tgt in _FUZZ:
    PROPS[_pid]["stages"].append({"family": _fam, "flavour": "fuzz", "target": _tgt, "fuzz": True, "tiers": ("thorough",), "fuzz_secs": 75, "jobs": 8})

# real-thread programs under AddressSanitizer+UBSan+LeakSanitizer (thorough tier): real allocations, real shared_ptr reference counts
for _pid, _tgt in [("C05", "RTrcu"), ("C13", "RTrcu"), ("C04", "RTcow"), ("C03", "RTlr"), ("C16", "RTdd"), ("C17", "RTsoh"), ("C18", "RTdobj")]:
    PROPS[_pid]["stages"].append({"family": "rt", "flavour": "rtasan", "target": _tgt, "cases": (4000, 120000), "maxsec": (20, 300), "stochastic": True,
                                  "min_nontrivial_frac": 0.5, "tiers": ("thorough",)})

ALL_IDS = ["C%02d" % i for i in range(1, 21)]
NOT_YET = "check not built yet in this session (planned, see DESIGN.md §5); not claimed until its machinery exists and has passed its mutant self-test"


def write_manifest():
    checks = []
    for pid in ALL_IDS:
        if pid not in PROPS:
            continue
        p = PROPS[pid]
        checks.append({
            "property_id": pid,
            "quick_cmd": f"./check {pid} --tier quick",
            "thorough_cmd": f"./check {pid} --tier thorough",
            "evidence_file": f"/verif/evidence/{pid}.json",
            "replay_cmd_template": "./check replay {path}",
            "engine": "vrt+rapidcheck",
            "level_claimed": {"category": p["level"], "text": p["text"], "design_ref": p["design_ref"]},
            "level_note": EXPLORATION_NOTE,
            "technique": p["technique"],
        })
    man = {
        "version": 1,
        "setup_cmd": "./check build",
        "hooks": {
            "guard": "GMLC_CONCURRENCY_VERIF",
            "enable": "no source hooks: the harness interposes on std:: through its include order (vrt/shim.hpp, '#define std vstd' around the unmodified headers); the guard macro is defined on harness compile lines only",
            "baseline_off_cmd": "cmake --build /repo/_build && ctest --test-dir /repo/_build -j8 --timeout 900",
            "source_commits": [],
            "add_only": True,
        },
        "engines": [
            {"name": "vrt+rapidcheck", "path": "/verif/vrt", "serves_properties": [c["property_id"] for c in checks],
             "kind_free_text": "deterministic ucontext-fiber runtime with modelled mutex/cv/atomic (schedule, time-outs, spurious wake-ups, stale reads, faults are generated data); rapidcheck generates and shrinks (program, schedule) cases; libFuzzer targets decode bytes into the same cases"},
        ],
        "checks": checks,
        "not_applicable": [{"property_id": pid, "reason": NOT_YET} for pid in ALL_IDS if pid not in PROPS],
        "notes": "All checks: exit 0 held / exit 1 + 'VIOLATION property=<id> replay=<path>' / exit 2 BUILD-ERROR / exit 3 GENERATOR-UNHEALTHY. VERIF_SEED seeds every generated choice.",
    }
    with open(os.path.join(VERIF, "MANIFEST.json"), "w") as f:
        json.dump(man, f, indent=1)
        f.write("\n")
