#!/bin/bash
# seed sweep on the unchanged tree: every quick check with several VERIF_SEED values; prints anything that is not OK
for seed in ${SEEDS:-2 3 5 8 13}; do
  for i in $(seq -w 1 20); do
    out=$(VERIF_SEED=$seed VERIF_EVIDENCE_DIR=/tmp/sweep-evidence ./check C$i --tier ${TIER:-quick} 2>&1); rc=$?
    echo "seed=$seed C$i rc=$rc $(echo "$out" | tail -1)"
    if [ $rc -ne 0 ]; then echo "$out" | tail -8; fi
  done
done
