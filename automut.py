#!/usr/bin/env python3
"""Automated statement-level mutation of the library headers (sensitivity measurement, not part of any check).

For a random sample of single-statement deletions / adjacent-statement swaps / condition negations in gmlc/*.hpp, apply the mutant to a scratch
copy, run the quick checks (fiber-runtime stages only, reduced budget) of every property anchored in that file, and record which
property killed it.  Survivors are candidates for blind spots (or equivalent mutants) and are listed for manual inspection.
usage: automut.py [N] [seed]
"""
import os, re, sys, json, random, shutil, subprocess, tempfile, time
VERIF = os.path.dirname(os.path.abspath(__file__))
REPO = "/repo"
props = [json.loads(l) for l in open(os.path.join(VERIF, "properties.jsonl"))]
by_file = {}
for p in props:
    for f in p["anchors"]["files"]:
        by_file.setdefault(f, []).append(p["id"])
N = int(sys.argv[1]) if len(sys.argv) > 1 else 100
rnd = random.Random(int(sys.argv[2]) if len(sys.argv) > 2 else 1)
cands = []
for f in sorted(by_file):
    lines = open(os.path.join(REPO, f)).read().split("\n")
    depth_code = False
    for i, l in enumerate(lines):
        t = l.strip()
        if not t or t.startswith(("//", "/*", "*", "#", "using ", "template", "typename", "class ", "struct ", "friend", "public:", "private:", "namespace", "static_assert", "explicit", "return;")):
            continue
        if t.endswith(";") and "(" in t and not t.startswith(("return", "throw", "std::lock_guard", "std::unique_lock", "typename", "auto ", "const ", "static ", "mutable ", "virtual", "T ", "M ", "bool ", "int ", "std::", "node*", "zombie_list_node*", "size_t", "pointer")) and "=" not in t.split("(")[0]:
            cands.append((f, i, "delete"))
        if t.startswith("if (") and t.endswith("{"):
            cands.append((f, i, "negate"))
        if t.startswith(("std::lock_guard", "std::unique_lock")) and t.endswith(";"):
            cands.append((f, i, "delete"))
        if ".store(" in t and t.endswith(";"):
            cands.append((f, i, "delete"))
sample = rnd.sample(cands, min(N, len(cands)))
results = []
for f, i, kind in sample:
    scratch = tempfile.mkdtemp(prefix="automut-", dir="/tmp")
    shutil.copytree(os.path.join(REPO, "gmlc"), os.path.join(scratch, "gmlc"))
    p = os.path.join(scratch, f)
    lines = open(p).read().split("\n")
    orig = lines[i]
    if kind == "delete":
        lines[i] = re.sub(r"\S.*", "/* mutant: deleted */", lines[i], count=1)
    else:
        m = re.match(r"(\s*if \()(.*)(\) \{)\s*$", lines[i])
        if not m:
            shutil.rmtree(scratch); continue
        lines[i] = m.group(1) + "!(" + m.group(2) + ")" + m.group(3)
    open(p, "w").write("\n".join(lines))
    rec = {"file": f, "line": i + 1, "kind": kind, "text": orig.strip(), "results": {}}
    killed = False
    for pid in by_file[f]:
        env = dict(os.environ, VERIF_REPO=scratch, VERIF_EVIDENCE_DIR=os.path.join(scratch, "ev"), VERIF_SCALE="0.3", VERIF_ONLY_PLAIN="1")
        r = subprocess.run([os.path.join(VERIF, "check"), pid, "--tier", "quick"], stdout=subprocess.PIPE, stderr=subprocess.STDOUT, text=True, env=env, cwd=VERIF)
        st = "killed" if r.returncode == 1 else "build-error" if r.returncode == 2 else "unhealthy" if r.returncode == 3 else "survived"
        rec["results"][pid] = st
        if st == "killed":
            d = [l for l in r.stdout.splitlines() if l.startswith("  ")]
            rec["killed_by"] = pid + ": " + (d[0].strip()[:160] if d else "")
            killed = True
            break
        if st == "build-error":
            break
    rec["status"] = "killed" if killed else ("build-error" if "build-error" in rec["results"].values() else "survived")
    results.append(rec)
    print(json.dumps(rec), flush=True)
    shutil.rmtree(scratch, ignore_errors=True)
k = sum(1 for r in results if r["status"] == "killed"); b = sum(1 for r in results if r["status"] == "build-error")
print(f"SUMMARY mutants={len(results)} killed={k} build_error={b} survived={len(results) - k - b}")
