// The red-black tree primitives behind std::map / std::set (libstdc++), defined in the *executable* so that they are compiled with the
// sanitizer in use.  libstdc++.so carries the stock definitions un-instrumented: ThreadSanitizer then cannot see the link / rebalance
// writes of an insert or erase, and a reader that walks the tree without the container's lock is not reported (measured: a
// DelayedObjects::isRecognized without its lock_guard ran 200 000 look-ups against 500 concurrent insertions with no report).
// A definition in the executable takes precedence over the shared library's for every caller, so all std::map / std::set objects of
// the real-thread harness use the code below.  The algorithms are the classic SGI / libstdc++ ones; harness/rbtree_selftest.cpp
// checks them with generated insert / erase sequences against a sorted reference and the red-black invariants.
#pragma once
#include <bits/stl_tree.h>
#include <utility>

namespace std _GLIBCXX_VISIBILITY(default) {

namespace vrt_rb {
inline _Rb_tree_node_base* increment(_Rb_tree_node_base* x) noexcept {
    if (x->_M_right != nullptr) {
        x = x->_M_right;
        while (x->_M_left != nullptr) x = x->_M_left;
    } else {
        _Rb_tree_node_base* y = x->_M_parent;
        while (x == y->_M_right) { x = y; y = y->_M_parent; }
        if (x->_M_right != y) x = y;
    }
    return x;
}
inline _Rb_tree_node_base* decrement(_Rb_tree_node_base* x) noexcept {
    if (x->_M_color == _S_red && x->_M_parent->_M_parent == x) x = x->_M_right;       // x is the header: the last element
    else if (x->_M_left != nullptr) {
        _Rb_tree_node_base* y = x->_M_left;
        while (y->_M_right != nullptr) y = y->_M_right;
        x = y;
    } else {
        _Rb_tree_node_base* y = x->_M_parent;
        while (x == y->_M_left) { x = y; y = y->_M_parent; }
        x = y;
    }
    return x;
}
inline void rotate_left(_Rb_tree_node_base* const x, _Rb_tree_node_base*& root) noexcept {
    _Rb_tree_node_base* const y = x->_M_right;
    x->_M_right = y->_M_left;
    if (y->_M_left != nullptr) y->_M_left->_M_parent = x;
    y->_M_parent = x->_M_parent;
    if (x == root) root = y;
    else if (x == x->_M_parent->_M_left) x->_M_parent->_M_left = y;
    else x->_M_parent->_M_right = y;
    y->_M_left = x;
    x->_M_parent = y;
}
inline void rotate_right(_Rb_tree_node_base* const x, _Rb_tree_node_base*& root) noexcept {
    _Rb_tree_node_base* const y = x->_M_left;
    x->_M_left = y->_M_right;
    if (y->_M_right != nullptr) y->_M_right->_M_parent = x;
    y->_M_parent = x->_M_parent;
    if (x == root) root = y;
    else if (x == x->_M_parent->_M_right) x->_M_parent->_M_right = y;
    else x->_M_parent->_M_left = y;
    y->_M_right = x;
    x->_M_parent = y;
}
}  // namespace vrt_rb

_Rb_tree_node_base* _Rb_tree_increment(_Rb_tree_node_base* x) throw() { return vrt_rb::increment(x); }
const _Rb_tree_node_base* _Rb_tree_increment(const _Rb_tree_node_base* x) throw() { return vrt_rb::increment(const_cast<_Rb_tree_node_base*>(x)); }
_Rb_tree_node_base* _Rb_tree_decrement(_Rb_tree_node_base* x) throw() { return vrt_rb::decrement(x); }
const _Rb_tree_node_base* _Rb_tree_decrement(const _Rb_tree_node_base* x) throw() { return vrt_rb::decrement(const_cast<_Rb_tree_node_base*>(x)); }

void _Rb_tree_insert_and_rebalance(const bool insert_left, _Rb_tree_node_base* x, _Rb_tree_node_base* p, _Rb_tree_node_base& header) throw() {
    _Rb_tree_node_base*& root = header._M_parent;
    x->_M_parent = p;
    x->_M_left = nullptr;
    x->_M_right = nullptr;
    x->_M_color = _S_red;
    if (insert_left) {
        p->_M_left = x;                          // also makes leftmost = x when p == &header
        if (p == &header) { header._M_parent = x; header._M_right = x; }
        else if (p == header._M_left) header._M_left = x;      // maintain leftmost
    } else {
        p->_M_right = x;
        if (p == header._M_right) header._M_right = x;         // maintain rightmost
    }
    while (x != root && x->_M_parent->_M_color == _S_red) {
        _Rb_tree_node_base* const xpp = x->_M_parent->_M_parent;
        if (x->_M_parent == xpp->_M_left) {
            _Rb_tree_node_base* const y = xpp->_M_right;
            if (y && y->_M_color == _S_red) {
                x->_M_parent->_M_color = _S_black; y->_M_color = _S_black; xpp->_M_color = _S_red; x = xpp;
            } else {
                if (x == x->_M_parent->_M_right) { x = x->_M_parent; vrt_rb::rotate_left(x, root); }
                x->_M_parent->_M_color = _S_black; xpp->_M_color = _S_red;
                vrt_rb::rotate_right(xpp, root);
            }
        } else {
            _Rb_tree_node_base* const y = xpp->_M_left;
            if (y && y->_M_color == _S_red) {
                x->_M_parent->_M_color = _S_black; y->_M_color = _S_black; xpp->_M_color = _S_red; x = xpp;
            } else {
                if (x == x->_M_parent->_M_left) { x = x->_M_parent; vrt_rb::rotate_right(x, root); }
                x->_M_parent->_M_color = _S_black; xpp->_M_color = _S_red;
                vrt_rb::rotate_left(xpp, root);
            }
        }
    }
    root->_M_color = _S_black;
}

_Rb_tree_node_base* _Rb_tree_rebalance_for_erase(_Rb_tree_node_base* const z, _Rb_tree_node_base& header) throw() {
    _Rb_tree_node_base*& root = header._M_parent;
    _Rb_tree_node_base*& leftmost = header._M_left;
    _Rb_tree_node_base*& rightmost = header._M_right;
    _Rb_tree_node_base* y = z;
    _Rb_tree_node_base* x = nullptr;
    _Rb_tree_node_base* x_parent = nullptr;
    if (y->_M_left == nullptr) x = y->_M_right;                // z has at most one non-null child; x may be null
    else if (y->_M_right == nullptr) x = y->_M_left;           // exactly one non-null child
    else {                                                     // two children: y = z's successor, x may be null
        y = y->_M_right;
        while (y->_M_left != nullptr) y = y->_M_left;
        x = y->_M_right;
    }
    if (y != z) {
        // relink y in place of z
        z->_M_left->_M_parent = y;
        y->_M_left = z->_M_left;
        if (y != z->_M_right) {
            x_parent = y->_M_parent;
            if (x) x->_M_parent = y->_M_parent;
            y->_M_parent->_M_left = x;                         // y must be a left child
            y->_M_right = z->_M_right;
            z->_M_right->_M_parent = y;
        } else x_parent = y;
        if (root == z) root = y;
        else if (z->_M_parent->_M_left == z) z->_M_parent->_M_left = y;
        else z->_M_parent->_M_right = y;
        y->_M_parent = z->_M_parent;
        std::swap(y->_M_color, z->_M_color);
        y = z;                                                 // y now points to the node actually removed
    } else {
        x_parent = y->_M_parent;
        if (x) x->_M_parent = y->_M_parent;
        if (root == z) root = x;
        else if (z->_M_parent->_M_left == z) z->_M_parent->_M_left = x;
        else z->_M_parent->_M_right = x;
        if (leftmost == z) {
            if (z->_M_right == nullptr) leftmost = z->_M_parent;     // z->_M_left is null too; leftmost becomes the header if z was the root
            else leftmost = _Rb_tree_node_base::_S_minimum(x);
        }
        if (rightmost == z) {
            if (z->_M_left == nullptr) rightmost = z->_M_parent;
            else rightmost = _Rb_tree_node_base::_S_maximum(x);
        }
    }
    if (y->_M_color != _S_red) {
        while (x != root && (x == nullptr || x->_M_color == _S_black)) {
            if (x == x_parent->_M_left) {
                _Rb_tree_node_base* w = x_parent->_M_right;
                if (w->_M_color == _S_red) {
                    w->_M_color = _S_black; x_parent->_M_color = _S_red;
                    vrt_rb::rotate_left(x_parent, root);
                    w = x_parent->_M_right;
                }
                if ((w->_M_left == nullptr || w->_M_left->_M_color == _S_black) && (w->_M_right == nullptr || w->_M_right->_M_color == _S_black)) {
                    w->_M_color = _S_red; x = x_parent; x_parent = x_parent->_M_parent;
                } else {
                    if (w->_M_right == nullptr || w->_M_right->_M_color == _S_black) {
                        w->_M_left->_M_color = _S_black; w->_M_color = _S_red;
                        vrt_rb::rotate_right(w, root);
                        w = x_parent->_M_right;
                    }
                    w->_M_color = x_parent->_M_color; x_parent->_M_color = _S_black;
                    if (w->_M_right) w->_M_right->_M_color = _S_black;
                    vrt_rb::rotate_left(x_parent, root);
                    break;
                }
            } else {
                _Rb_tree_node_base* w = x_parent->_M_left;
                if (w->_M_color == _S_red) {
                    w->_M_color = _S_black; x_parent->_M_color = _S_red;
                    vrt_rb::rotate_right(x_parent, root);
                    w = x_parent->_M_left;
                }
                if ((w->_M_right == nullptr || w->_M_right->_M_color == _S_black) && (w->_M_left == nullptr || w->_M_left->_M_color == _S_black)) {
                    w->_M_color = _S_red; x = x_parent; x_parent = x_parent->_M_parent;
                } else {
                    if (w->_M_left == nullptr || w->_M_left->_M_color == _S_black) {
                        w->_M_right->_M_color = _S_black; w->_M_color = _S_red;
                        vrt_rb::rotate_left(w, root);
                        w = x_parent->_M_left;
                    }
                    w->_M_color = x_parent->_M_color; x_parent->_M_color = _S_black;
                    if (w->_M_left) w->_M_left->_M_color = _S_black;
                    vrt_rb::rotate_right(x_parent, root);
                    break;
                }
            }
        }
        if (x) x->_M_color = _S_black;
    }
    return y;
}

}  // namespace std
