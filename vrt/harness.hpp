// Case representation, text (replay) form, rapidcheck generators, libFuzzer decoding, and the worker
// main() shared by every family harness.  See DESIGN.md §3.2, §3.3, §3.5.
//
// Include order in a harness TU:
//     #include <rapidcheck.h>
//     #include "vrt/shim.hpp" ; #define std vstd ; <library headers> ; #undef std
//     #include "vrt/payload.hpp"
//     #include "vrt/harness.hpp"
#pragma once
#include <rapidcheck.h>
#include "vrt.hpp"
#include <map>
#include <set>
#include <unordered_set>
#include <sstream>
#include <fstream>
#include <chrono>
#include <fcntl.h>
#include <unistd.h>

namespace vh {

struct Op { int code = 0, a = 0, b = 0; };

struct Case {
    std::string target;
    std::vector<int> cfg;
    std::vector<std::vector<Op>> fibers;
    vrt::SchedSpec sched;
};

// ------------------------------------------------------------------------------------------ text form
inline std::string to_text(const Case& c) {
    std::ostringstream o;
    o << "target " << c.target << "\n";
    o << "cfg";
    for (int v : c.cfg) o << ' ' << v;
    o << "\n";
    for (auto& f : c.fibers) {
        o << "fiber";
        for (auto& op : f) o << ' ' << op.code << ',' << op.a << ',' << op.b;
        o << "\n";
    }
    o << "sched " << (c.sched.mode == 0 ? "list" : c.sched.mode == 1 ? "pct" : "rr") << "\n";
    o << "bytes";
    { size_t n = c.sched.bytes.size(); while (n > 0 && c.sched.bytes[n - 1] == 0) --n;   // trailing zeros are implicit
      for (size_t i = 0; i < n; ++i) o << ' ' << (int)c.sched.bytes[i]; }
    o << "\naux";
    { size_t n = c.sched.aux.size(); while (n > 0 && c.sched.aux[n - 1] == 0) --n;
      for (size_t i = 0; i < n; ++i) o << ' ' << (int)c.sched.aux[i]; }
    o << "\nweak " << (c.sched.weak ? 1 : 0) << "\n";
    o << "fault " << c.sched.fault_k << ' ' << c.sched.fault_mask; if (c.sched.fault_std) o << " 1"; o << "\n";
    o << "budget " << c.sched.step_budget << "\n";
    if (c.sched.post_unlock) o << "postunlock 1\n";
    o << "end\n";
    return o.str();
}

inline bool from_text(const std::string& text, Case& c) {
    c = Case();
    std::istringstream in(text);
    std::string line;
    bool ended = false;
    while (std::getline(in, line)) {
        std::istringstream ls(line);
        std::string kw;
        if (!(ls >> kw)) continue;
        if (kw == "target") ls >> c.target;
        else if (kw == "cfg") { int v; while (ls >> v) c.cfg.push_back(v); }
        else if (kw == "fiber") {
            std::vector<Op> f; std::string tok;
            while (ls >> tok) { Op op; if (std::sscanf(tok.c_str(), "%d,%d,%d", &op.code, &op.a, &op.b) == 3) f.push_back(op); }
            c.fibers.push_back(f);
        }
        else if (kw == "sched") { std::string m; ls >> m; c.sched.mode = m == "pct" ? 1 : m == "rr" ? 2 : 0; }
        else if (kw == "bytes") { int v; while (ls >> v) c.sched.bytes.push_back((uint8_t)v); }
        else if (kw == "aux") { int v; while (ls >> v) c.sched.aux.push_back((uint8_t)v); }
        else if (kw == "weak") { int v = 0; ls >> v; c.sched.weak = v != 0; }
        else if (kw == "fault") { int st = 0; ls >> c.sched.fault_k >> c.sched.fault_mask; if (ls >> st) c.sched.fault_std = st != 0; }
        else if (kw == "budget") { ls >> c.sched.step_budget; }
        else if (kw == "postunlock") { int v = 0; ls >> v; c.sched.post_unlock = v != 0; }
        else if (kw == "end") { ended = true; break; }
    }
    return ended && !c.target.empty();
}

// ------------------------------------------------------------------------------------------ outcome / targets
struct Outcome {
    vrt::Result res;
    bool nontrivial = false;
    std::vector<std::string> labels;       // classification labels (counted)
    uint64_t sig = 0;                      // extra signature material (program hash is added by the driver)
};

struct GenSpec {
    int nfibers = 3;                       // fiber slots (an empty op list = absent fiber)
    int max_ops = 6;
    int ncodes = 1, amax = 1, bmax = 1;
    std::vector<int> cfg_max;              // cfg[i] in [0, cfg_max[i])
    int sched_len = 96, aux_len = 24;
    bool allow_weak = false;
    int fault_max = 0;                     // 0: no fault plan; else fault_k in [0, fault_max]
    unsigned fault_mask = ~0u;
    long step_budget = 20000;
    bool sequential = false;               // single fiber: no schedule needed
    int aux_density = 12;                  // percent of non-zero aux bytes
};

struct Target {
    std::string name;
    GenSpec spec;                          // quick
    GenSpec spec_thorough;
    std::function<Outcome(const Case&)> run;
    std::string nt_rule;
};

inline std::map<std::string, Target>& targets() { static std::map<std::string, Target> t; return t; }
struct Register {
    Register(const std::string& name, GenSpec q, GenSpec th, std::function<Outcome(const Case&)> run, const std::string& rule) {
        targets()[name] = Target{name, q, th, std::move(run), rule};
    }
};

// ------------------------------------------------------------------------------------------ generators
inline rc::Gen<int> rng(int lo, int hi) { return rc::gen::resize(rc::kNominalSize, rc::gen::inRange(lo, hi)); }

inline rc::Gen<std::vector<uint8_t>> sparse_bytes(int len, int density, int maxv) {
    auto elem = rc::gen::map(rc::gen::pair(rng(0, 100), rng(1, maxv + 1)),
                             [density](std::pair<int, int> p) { return (uint8_t)(p.first >= 100 - density ? p.second : 0); });   // shrinks towards 0
    return rc::gen::container<std::vector<uint8_t>>((std::size_t)len, elem);
}

inline rc::Gen<vrt::SchedSpec> gen_sched(const GenSpec& g) {
    using namespace rc;
    if (g.sequential) {
        return gen::map(gen::tuple(sparse_bytes(g.aux_len, g.aux_density, 255), rng(0, 2 * g.fault_max + 1)),
                        [g](std::tuple<std::vector<uint8_t>, int> t) {
                            vrt::SchedSpec s; s.mode = 0; s.aux = std::get<0>(t); s.fault_k = std::get<1>(t);
                            if (s.fault_k > g.fault_max) { s.fault_k -= g.fault_max; s.fault_std = true; }   // (post_unlock is meaningless with one fiber)
                            s.fault_mask = g.fault_mask; s.step_budget = g.step_budget; return s;
                        });
    }
    // schedule flavour: 0..3 sparse list with density {5,10,20,40}%, 4 dense list, 5 pct, 6 rr
    return gen::mapcat(rng(0, 16), [g](int flavour) {
        int mode = 0, density = 100;
        if (flavour < 12) { static const int d[4] = {5, 10, 20, 40}; density = d[flavour % 4]; }
        else if (flavour < 14) density = 100;
        else if (flavour < 16) mode = 1;
        // (rr is reached through shrinking / thorough tier only: it is a single schedule per program)
        return gen::map(gen::tuple(sparse_bytes(g.sched_len, density, 7), sparse_bytes(g.aux_len, g.aux_density, 255),
                                   rng(0, 2 * g.fault_max + 1), rng(0, g.allow_weak ? 2 : 1), rng(0, 3)),
                        [g, mode](std::tuple<std::vector<uint8_t>, std::vector<uint8_t>, int, int, int> t) {
                            vrt::SchedSpec s; s.mode = mode; s.bytes = std::get<0>(t); s.aux = std::get<1>(t);
                            s.fault_k = std::get<2>(t); s.fault_mask = g.fault_mask; s.weak = std::get<3>(t) != 0;
                            if (s.fault_k > g.fault_max) { s.fault_k -= g.fault_max; s.fault_std = true; }
                            s.step_budget = g.step_budget; s.post_unlock = std::get<4>(t) == 2;      // a third of the cases
                            return s;
                        });
    });
}

inline rc::Gen<Case> gen_case(const std::string& target, const GenSpec& g) {
    using namespace rc;
    auto opg = gen::map(gen::tuple(rng(0, g.ncodes), rng(0, g.amax), rng(0, g.bmax)),
                        [](std::tuple<int, int, int> t) { Op o; o.code = std::get<0>(t); o.a = std::get<1>(t); o.b = std::get<2>(t); return o; });
    auto fibg = gen::resize(g.max_ops, gen::container<std::vector<Op>>(opg));
    auto fibsg = gen::container<std::vector<std::vector<Op>>>((std::size_t)g.nfibers, fibg);
    std::vector<Gen<int>> cfgs;
    auto cfgg = gen::exec([g]() {
        std::vector<int> v;
        for (int m : g.cfg_max) v.push_back(*rng(0, m));
        return v;
    });
    return gen::map(gen::tuple(cfgg, fibsg, gen_sched(g)),
                    [target](std::tuple<std::vector<int>, std::vector<std::vector<Op>>, vrt::SchedSpec> t) {
                        Case c; c.target = target; c.cfg = std::get<0>(t); c.fibers = std::get<1>(t); c.sched = std::get<2>(t); return c;
                    });
}

// bytes -> Case (libFuzzer): integrals from the end (config, schedule flavour), op stream from the front
inline Case decode_bytes(const std::string& target, const GenSpec& g, const uint8_t* data, size_t size) {
    Case c; c.target = target;
    size_t back = size;
    auto take_back = [&]() -> uint8_t { return back > 0 ? data[--back] : 0; };
    for (int m : g.cfg_max) c.cfg.push_back(take_back() % m);
    uint8_t flavour = take_back();
    c.sched.mode = (flavour & 15) >= 14 ? 1 : 0;
    c.sched.weak = g.allow_weak && (flavour & 16);
    c.sched.post_unlock = (flavour & 96) == 96;
    c.sched.fault_k = g.fault_max ? take_back() % (2 * g.fault_max + 1) : 0;
    if (c.sched.fault_k > g.fault_max) { c.sched.fault_k -= g.fault_max; c.sched.fault_std = true; }
    c.sched.fault_mask = g.fault_mask;
    c.sched.step_budget = g.step_budget;
    int nsched = g.sequential ? 0 : std::min<int>(g.sched_len, (int)(back / 3));
    int naux = std::min<int>(g.aux_len, (int)(back / 6));
    for (int i = 0; i < nsched; ++i) { uint8_t b = take_back(); c.sched.bytes.push_back((b & 0xf8) ? 0 : b); }   // mostly zero => sparse
    for (int i = 0; i < naux; ++i) { uint8_t b = take_back(); c.sched.aux.push_back((b & 1) ? 0 : b); }
    size_t pos = 0;
    c.fibers.resize((size_t)g.nfibers);
    // op stream: byte0 = (fiber slot, code), byte1 = a, byte2 = b ; 0xff terminates
    while (pos + 2 < back) {
        uint8_t h = data[pos++];
        if (h == 0xff) break;
        int slot = (h >> 5) % g.nfibers;
        Op o; o.code = (h & 31) % g.ncodes; o.a = data[pos++] % g.amax; o.b = data[pos++] % g.bmax;
        if ((int)c.fibers[(size_t)slot].size() < g.max_ops) c.fibers[(size_t)slot].push_back(o);
    }
    return c;
}

// ------------------------------------------------------------------------------------------ worker main
inline uint64_t fnv(const std::string& s, uint64_t h = 1469598103934665603ull) {
    for (unsigned char ch : s) h = (h ^ ch) * 1099511628211ull;
    return h;
}
inline uint64_t program_hash(const Case& c) {
    uint64_t h = 1469598103934665603ull;
    auto mix = [&](uint64_t v) { h = (h ^ v) * 1099511628211ull; };
    for (int v : c.cfg) mix((uint64_t)v + 7);
    for (auto& f : c.fibers) { mix(0xfffe); for (auto& o : f) { mix((uint64_t)o.code); mix((uint64_t)o.a + 300); mix((uint64_t)o.b + 600); } }
    mix(c.sched.weak); mix((uint64_t)c.sched.fault_k); if (c.sched.post_unlock) mix(0x9051); if (c.sched.fault_std) mix(0x57d);
    return h;
}

struct CrashFile {
    char* map = nullptr; size_t cap = 1 << 16;
    void open(const std::string& path) {
        int fd = ::open(path.c_str(), O_RDWR | O_CREAT | O_TRUNC, 0644);
        if (fd < 0) return;
        if (ftruncate(fd, (off_t)cap) != 0) { ::close(fd); return; }
        void* p = mmap(nullptr, cap, PROT_READ | PROT_WRITE, MAP_SHARED, fd, 0);
        ::close(fd);
        if (p != MAP_FAILED) map = (char*)p;
    }
    void put(const std::string& s) { if (map) { size_t n = std::min(s.size(), cap - 1); std::memcpy(map, s.data(), n); map[n] = 0; } }
    void clear() { if (map) map[0] = 0; }
};

inline std::string json_escape(const std::string& s) {
    std::string o;
    for (char ch : s) {
        if (ch == '"' || ch == '\\') { o += '\\'; o += ch; }
        else if (ch == '\n') o += "\\n";
        else if ((unsigned char)ch < 32) o += ' ';
        else o += ch;
    }
    return o;
}

inline int worker_main(int argc, char** argv) {
    std::vector<std::string> args(argv + 1, argv + argc);
    auto opt = [&](const std::string& k, const std::string& def) {
        for (size_t i = 0; i + 1 < args.size(); ++i) if (args[i] == k) return args[i + 1];
        return def;
    };
    if (args.empty()) { std::fprintf(stderr, "usage: gen <target> [--seed N --cases N --maxsec S --tier quick|thorough --out F --replay-out F --crash F] | replay <file> | list\n"); return 2; }
    if (args[0] == "list") { for (auto& kv : targets()) std::printf("%s\n", kv.first.c_str()); return 0; }
    if (args[0] == "replay") {
        if (args.size() < 2) return 2;
        std::ifstream in(args[1]); std::stringstream ss; ss << in.rdbuf();
        Case c;
        if (!from_text(ss.str(), c)) { std::printf("RESULT bad-case-file\n"); return 2; }
        auto it = targets().find(c.target);
        if (it == targets().end()) { std::printf("RESULT unknown-target %s\n", c.target.c_str()); return 2; }
        int reps = std::atoi(opt("--reps", "1").c_str());
        int bad = 0; std::string first;
        for (int i = 0; i < reps; ++i) {
            Outcome o = it->second.run(c);
            std::string line = o.res.violation ? ("VIOLATION " + o.res.kind + " :: " + o.res.msg) : o.res.inconclusive ? "INCONCLUSIVE" : "OK";
            if (i == 0) first = line; else if (line != first) { std::printf("RESULT nondeterministic: '%s' vs '%s'\n", first.c_str(), line.c_str()); return 3; }
            if (o.res.violation) bad++;
        }
        std::printf("RESULT %s\n", first.c_str());
        return bad ? 1 : 0;
    }
    if (args[0] == "enum-sched" || args[0] == "enum-cfg") {
        // Bounded exhaustive enumeration (SmallCheck style) with the same harness and oracle:
        //   enum-sched <file> --maxpre K [--shard i --nshards n]  : every list schedule with <= K preemptions over the first L decisions of a fixed program
        //   enum-cfg <target>                                      : every configuration vector within the target's cfg ranges, default schedule
        std::string outp = opt("--out", ""), replay_out = opt("--replay-out", "replay.case");
        long shard = std::atol(opt("--shard", "0").c_str()), nshards = std::max(1L, std::atol(opt("--nshards", "1").c_str()));
        long cap = std::atol(opt("--cap", "3000000").c_str());
        long evals = 0, idx = 0; bool capped = false; std::unordered_set<uint64_t> sigs; long nontriv = 0;
        std::vector<std::string> samples;
        Case base; Target* T = nullptr; int K = std::atoi(opt("--maxpre", "2").c_str()); long L = 0; int F = 2;
        auto finish = [&](bool viol, const Outcome* o, const Case* cs) {
            if (viol) { std::ofstream rf(replay_out); rf << to_text(*cs); rf.close();
                std::printf("FOUND target=%s kind=%s msg=%s replay=%s\n", T->name.c_str(), o->res.kind.c_str(), o->res.msg.c_str(), replay_out.c_str()); }
            if (!outp.empty()) {
                std::ofstream of(outp);
                of << "{\"target\":\"" << T->name << "\",\"violation\":" << (viol ? "true" : "false");
                if (viol) of << ",\"kind\":\"" << json_escape(o->res.kind) << "\",\"msg\":\"" << json_escape(o->res.msg) << "\",\"replay\":\"" << json_escape(replay_out) << "\"";
                of << ",\"evaluations\":" << evals << ",\"nontrivial\":" << nontriv << ",\"inconclusive\":0,\"early_stop\":" << (capped ? "true" : "false")
                   << ",\"exhaustive\":" << (capped ? "false" : "true") << ",\"bound\":\"" << (args[0] == "enum-sched" ? ("all list schedules with <= " + std::to_string(K) + " preemptions over the first " + std::to_string(L) + " decisions, " + std::to_string(F) + " fibers") : std::string("all configuration vectors")) << "\""
                   << ",\"wall_s\":0,\"rule\":\"" << json_escape(T->nt_rule) << "\",\"labels\":{},\"samples\":[";
                for (size_t k = 0; k < samples.size(); ++k) of << (k ? "," : "") << "\"" << json_escape(samples[k]) << "\"";
                of << "],\"sigs\":[";
                { bool f2 = true; for (uint64_t sg : sigs) { of << (f2 ? "" : ",") << "\"" << std::hex << sg << std::dec << "\""; f2 = false; } }
                of << "]}\n";
            }
            std::printf("DONE target=%s evaluations=%ld exhaustive=%d\n", T->name.c_str(), evals, capped ? 0 : 1);
            return viol ? 1 : 0;
        };
        auto run_one = [&](const Case& cs, Outcome& o) {
            o = T->run(cs); evals++;
            if (o.nontrivial) { nontriv++; sigs.insert(program_hash(cs) ^ (o.res.trace_hash * 0x9E3779B97F4A7C15ull) ^ o.sig); if (samples.size() < 2) samples.push_back(to_text(cs)); }
            return o.res.violation;
        };
        if (args[0] == "enum-cfg") {
            auto it2 = targets().find(args[1]);
            if (it2 == targets().end()) return 2;
            T = &it2->second;
            const GenSpec& G = T->spec;
            base.target = T->name; base.fibers.resize((size_t)G.nfibers); base.sched.step_budget = G.step_budget;
            std::vector<int> cfg(G.cfg_max.size(), 0);
            for (;;) {
                if (idx++ % nshards == shard) { Case cs = base; cs.cfg = cfg; Outcome o; if (run_one(cs, o)) return finish(true, &o, &cs); }
                size_t d = 0;
                while (d < cfg.size()) { if (++cfg[d] < G.cfg_max[d]) break; cfg[d] = 0; ++d; }
                if (d == cfg.size()) break;
            }
            return finish(false, nullptr, nullptr);
        }
        {
            std::ifstream in(args[1]); std::stringstream ss; ss << in.rdbuf();
            if (!from_text(ss.str(), base)) { std::printf("RESULT bad-case-file\n"); return 2; }
            auto it2 = targets().find(base.target);
            if (it2 == targets().end()) return 2;
            T = &it2->second;
        }
        base.sched.mode = 0; base.sched.bytes.clear();
        { Outcome o0 = T->run(base); L = std::min<long>(o0.res.decisions + 6, 120); F = 1; for (auto& f : base.fibers) if (!f.empty()) F++; }
        // enumerate sparse schedules: k positions, values 1..F
        std::vector<long> pos; std::vector<int> val;
        std::function<bool(int, long)> rec = [&](int k, long start) -> bool {
            if (evals >= cap) { capped = true; return false; }
            if (idx++ % nshards == shard) {
                Case cs = base; cs.sched.bytes.assign((size_t)L, 0);
                for (size_t q = 0; q < pos.size(); ++q) cs.sched.bytes[(size_t)pos[q]] = (uint8_t)val[q];
                Outcome o; if (run_one(cs, o)) { finish(true, &o, &cs); return true; }
            }
            if (k == 0) return false;
            for (long p2 = start; p2 < L; ++p2) for (int v = 1; v <= F; ++v) { pos.push_back(p2); val.push_back(v); bool hit = rec(k - 1, p2 + 1); pos.pop_back(); val.pop_back(); if (hit) return true; if (capped) return false; }
            return false;
        };
        if (rec(K, 0)) return 1;
        return finish(false, nullptr, nullptr);
    }
    if (args[0] != "gen" || args.size() < 2) return 2;
    auto it = targets().find(args[1]);
    if (it == targets().end()) { std::fprintf(stderr, "unknown target %s\n", args[1].c_str()); return 2; }
    Target& T = it->second;
    bool thorough = opt("--tier", "quick") == "thorough";
    const GenSpec& G = thorough ? T.spec_thorough : T.spec;
    uint64_t seed = std::strtoull(opt("--seed", "1").c_str(), nullptr, 10);
    long ncases = std::atol(opt("--cases", "100000").c_str());
    double maxsec = std::atof(opt("--maxsec", "1e9").c_str());
    std::string out = opt("--out", ""), replay_out = opt("--replay-out", "replay.case");
    int force_weak = std::atoi(opt("--weak", "-1").c_str());
    CrashFile crash; { std::string cf = opt("--crash", ""); if (!cf.empty()) crash.open(cf); }

    auto gen = gen_case(T.name, G);
    rc::Random base(seed * 0x9E3779B97F4A7C15ull + 0x1234567ull);
    auto t0 = std::chrono::steady_clock::now();
    long evals = 0, nontriv = 0, inconclusive = 0;
    std::unordered_set<uint64_t> sigs;
    std::map<std::string, long> labels;
    std::vector<std::string> samples;
    long tot_steps = 0, tot_preempt = 0, tot_stale = 0, tot_timeouts = 0, tot_spurious = 0, tot_faults = 0, tot_blocked = 0;
    int max_size = std::max(G.max_ops, 4);
    bool early = false;
    for (long i = 0; i < ncases; ++i) {
        if ((i & 63) == 0) {
            double el = std::chrono::duration<double>(std::chrono::steady_clock::now() - t0).count();
            if (el > maxsec) { early = true; break; }
        }
        rc::Random r = base.split();
        int size = (int)(i % (max_size + 1));
        rc::Shrinkable<Case> sh = gen(r, size);
        Case c = sh.value();
        if (force_weak >= 0) c.sched.weak = force_weak != 0;
        if (crash.map) crash.put(to_text(c));
        Outcome o = T.run(c);
        evals++;
        tot_steps += o.res.steps; tot_preempt += o.res.preemptions; tot_stale += o.res.stale_reads; tot_timeouts += o.res.timeouts_fired;
        tot_spurious += o.res.spurious_wakes; tot_faults += o.res.faults_fired; tot_blocked += o.res.blocked_events;
        if (o.res.inconclusive) inconclusive++;
        for (auto& l : o.labels) labels[l]++;
        if (o.nontrivial) {
            nontriv++;
            uint64_t h = program_hash(c) ^ (o.res.trace_hash * 0x9E3779B97F4A7C15ull) ^ o.sig;
            sigs.insert(h);
            if (samples.size() < 4 && (samples.empty() || (i % 97) == 0)) samples.push_back(to_text(c));
        }
        if (o.res.violation) {
            // shrink with rapidcheck's shrink tree (greedy descent, bounded)
            rc::Shrinkable<Case> curS = sh;
            Case best = c; Outcome bestO = o;
            int runs = 0; bool progress = true;
            while (progress && runs < 3000) {
                progress = false;
                auto seq = curS.shrinks();
                while (auto m = seq.next()) {
                    if (++runs > 3000) break;
                    Case c2 = m->value();
                    if (force_weak >= 0) c2.sched.weak = force_weak != 0;
                    if (crash.map) crash.put(to_text(c2));
                    Outcome o2 = T.run(c2);
                    if (o2.res.violation) { curS = *m; best = c2; bestO = o2; progress = true; break; }
                }
            }
            if (crash.map) crash.clear();
            std::ofstream rf(replay_out); rf << to_text(best); rf.close();
            std::printf("FOUND target=%s kind=%s msg=%s shrink_runs=%d case_index=%ld replay=%s\n", T.name.c_str(), bestO.res.kind.c_str(),
                        bestO.res.msg.c_str(), runs, i, replay_out.c_str());
            if (!out.empty()) {
                std::ofstream of(out);
                of << "{\"target\":\"" << T.name << "\",\"violation\":true,\"kind\":\"" << json_escape(bestO.res.kind) << "\",\"msg\":\"" << json_escape(bestO.res.msg)
                   << "\",\"evaluations\":" << evals << ",\"nontrivial\":" << nontriv << ",\"replay\":\"" << json_escape(replay_out) << "\",\"sigs\":[]}\n";
            }
            return 1;
        }
    }
    if (crash.map) crash.clear();
    double el = std::chrono::duration<double>(std::chrono::steady_clock::now() - t0).count();
    if (!out.empty()) {
        std::ofstream of(out);
        of << "{\"target\":\"" << T.name << "\",\"violation\":false,\"evaluations\":" << evals << ",\"nontrivial\":" << nontriv
           << ",\"inconclusive\":" << inconclusive << ",\"early_stop\":" << (early ? "true" : "false") << ",\"wall_s\":" << el
           << ",\"steps\":" << tot_steps << ",\"preemptions\":" << tot_preempt << ",\"stale_reads\":" << tot_stale << ",\"timeouts_fired\":" << tot_timeouts
           << ",\"spurious_wakes\":" << tot_spurious << ",\"faults_fired\":" << tot_faults << ",\"blocked_events\":" << tot_blocked
           << ",\"rule\":\"" << json_escape(T.nt_rule) << "\",\"labels\":{";
        bool first = true;
        for (auto& kv : labels) { of << (first ? "" : ",") << "\"" << json_escape(kv.first) << "\":" << kv.second; first = false; }
        of << "},\"samples\":[";
        for (size_t k = 0; k < samples.size(); ++k) of << (k ? "," : "") << "\"" << json_escape(samples[k]) << "\"";
        of << "],\"sigs\":[";
        { bool f2 = true; for (uint64_t s : sigs) { of << (f2 ? "" : ",") << "\"" << std::hex << s << std::dec << "\""; f2 = false; } }
        of << "]}\n";
    }
    std::printf("DONE target=%s evaluations=%ld nontrivial=%ld distinct=%zu inconclusive=%ld wall=%.2f\n", T.name.c_str(), evals, nontriv, sigs.size(), inconclusive, el);
    return 0;
}

}  // namespace vh

#ifdef VRT_FUZZ
extern "C" int LLVMFuzzerTestOneInput(const uint8_t* data, size_t size) {
    static vh::Target* T = nullptr;
    static std::string replay_dir;
    if (!T) {
        const char* t = std::getenv("VRT_TARGET");
        if (!t) { std::fprintf(stderr, "VRT_TARGET not set\n"); std::abort(); }
        auto it = vh::targets().find(t);
        if (it == vh::targets().end()) { std::fprintf(stderr, "unknown target %s\n", t); std::abort(); }
        T = &it->second;
        const char* rd = std::getenv("VRT_REPLAY_DIR");
        replay_dir = rd ? rd : ".";
    }
    vh::Case c = vh::decode_bytes(T->name, T->spec, data, size);
    static vh::CrashFile crash;
    static bool crash_init = false;
    if (!crash_init) { crash_init = true; const char* cf = std::getenv("VRT_CRASH_FILE"); if (cf) crash.open(std::string(cf) + "." + std::to_string((long)getpid())); }
    if (crash.map) crash.put(vh::to_text(c));
    vh::Outcome o = T->run(c);
    if (crash.map) crash.clear();
    if (o.res.violation) {
        char name[64]; std::snprintf(name, sizeof name, "/fuzz-%s-%016llx.case", T->name.c_str(), (unsigned long long)vh::fnv(vh::to_text(c)));
        std::ofstream rf(replay_dir + name); rf << vh::to_text(c); rf.close();
        std::fprintf(stderr, "FOUND target=%s kind=%s msg=%s replay=%s%s\n", T->name.c_str(), o.res.kind.c_str(), o.res.msg.c_str(), replay_dir.c_str(), name);
        __builtin_trap();
    }
    return 0;
}
#else
int main(int argc, char** argv) { return vh::worker_main(argc, argv); }
#endif
