// Tracked payload (two-word value with access windows, HB shadow, liveness canary, fault points) and the
// quarantining allocator QAlloc.  See DESIGN.md §3.1.
#pragma once
#include "vrt.hpp"
#include <unordered_map>
#include <deque>
#include <type_traits>
#include <initializer_list>
#include <string>

namespace vrt {

struct TrackedStats {
    long ctor = 0, dtor = 0, copies = 0, assigns = 0, compares = 0;
    int next_serial = 1;
    bool windows = true;             // scheduling point inside each access window
    bool dtor_hb_exempt = false;     // payload lifetime is managed by real (unmodelled) std::shared_ptr reference counts
    bool move_empties = true;        // a move leaves the source holding Tracked::MOVED
    // family hooks: called on every read / write of any Tracked (after the HB check)
    void (*hook_read)(const struct Tracked*, uint64_t) = nullptr;
    void (*hook_set)(const struct Tracked*, uint64_t) = nullptr;
    void (*hook_born)(const struct Tracked*) = nullptr;
    void reset() { *this = TrackedStats(); }
};
inline TrackedStats& tstats() { static TrackedStats s; return s; }

struct Tracked {
    uint64_t w1, w2;
    mutable Shadow sh;
    uint32_t canary;
    int serial;
    static constexpr uint32_t ALIVE = 0xA11CE5u, DEAD = 0xDEADDEADu;

    void born() {
        canary = ALIVE; serial = tstats().next_serial++; tstats().ctor++;
        if (rt().cur) { sh.w_f = me().id; sh.w_c = me().clock.c[me().id]; }
        if (tstats().hook_born) tstats().hook_born(this);
    }
    void alive(const char* what) const {
        check_live_addr(this, what);
        if (canary != ALIVE) fail("use-after-destroy", std::string(what) + " on a destroyed payload object");
    }
    Tracked() : w1(0), w2(0) { born(); }
    explicit Tracked(uint64_t v) : w1(v), w2(v) { born(); }
    Tracked(const Tracked& o) {
        tstats().copies++;
        fault_point(F_COPY);
        uint64_t v = o.read();
        w1 = w2 = v; born();
    }
    // Moving steals the state: the source is left holding the MOVED marker (like a std::string / vector that was moved from).
    // Reading a payload in that state through the harness's accessors is reported: no correct use of the library leaves a
    // protected object, a list element or a returned value moved-from.
    static constexpr uint64_t MOVED = 0x4D4F5645444D4F56ull;
    void mark_moved() {
        if (!tstats().move_empties) return;
        hb_write(sh, "payload (moved from)");
        if (tstats().hook_set) tstats().hook_set(this, MOVED);
        w1 = w2 = MOVED;
    }
    Tracked(Tracked&& o) {                  // no fault point: the fault plan covers copies and copy-assignments ("copy or assignment throws")
        tstats().copies++;
        uint64_t v = o.read_any();
        w1 = w2 = v; born();
        o.mark_moved();
    }
    Tracked& operator=(const Tracked& o) {
        tstats().assigns++;
        fault_point(F_ASSIGN);
        uint64_t v = o.read();
        set(v);
        return *this;
    }
    Tracked& operator=(Tracked&& o) {
        tstats().assigns++;
        uint64_t v = o.read_any();
        set(v);
        if (&o != this) o.mark_moved();
        return *this;
    }
    ~Tracked() {
        if (canary != ALIVE) {
            if (rt().active && rt().cur) fail("double-destroy", "payload object destroyed twice (or never constructed)");
            return;
        }
        if (rt().active && rt().cur) {
            check_live_addr(this, "payload destructor");
            if (!sh.hb_exempt && !tstats().dtor_hb_exempt) hb_write(sh, "payload (destructor)");
        }
        canary = DEAD; tstats().dtor++;
    }
    uint64_t read() const {
        uint64_t v = read_any();
        if (v == MOVED && tstats().move_empties) fail("moved-from-value", "a payload object was observed in its moved-from state");
        return v;
    }
    uint64_t read_any() const {
        alive("payload read");
        hb_read(sh, "payload");
        uint64_t a = w1;
        if (tstats().windows) step();
        if (canary != ALIVE) fail("use-after-destroy", "payload destroyed during a read");
        uint64_t b = w2;
        if (a != b) fail("torn", "payload read saw a half-written value");
        if (tstats().hook_read) tstats().hook_read(this, a);
        return a;
    }
    void set(uint64_t v) {
        alive("payload write");
        hb_write(sh, "payload");
        if (tstats().hook_set) tstats().hook_set(this, v);
        w1 = v;
        if (tstats().windows) step();
        if (canary != ALIVE) fail("use-after-destroy", "payload destroyed during a write");
        w2 = v;
    }
    void or_bits(uint64_t bits) {
        alive("payload write");
        hb_write(sh, "payload");
        uint64_t a = w1, b = w2;
        if (a != b) fail("torn", "payload modify started from a half-written value");
        if (tstats().hook_read) tstats().hook_read(this, a);
        if (tstats().hook_set) tstats().hook_set(this, a | bits);
        w1 = a | bits;
        if (tstats().windows) step();
        if (canary != ALIVE) fail("use-after-destroy", "payload destroyed during a write");
        w2 = b | bits;
    }
    // unchecked peek for oracles (no window, no HB): only for the harness's own end-of-case inspection
    uint64_t peek() const { return w1; }
    bool operator==(const Tracked& o) const {
        tstats().compares++;
        fault_point(F_COMPARE);
        return read() == o.read();
    }
    bool operator!=(const Tracked& o) const { return !(*this == o); }
};

// A payload whose move operations are noexcept (libraries select different code paths on such type traits); same access windows and
// shadow state as Tracked, no fault points in the move operations.
struct TrackedNX {
    Tracked t;
    TrackedNX() = default;
    explicit TrackedNX(uint64_t v) : t(v) {}
    TrackedNX(const TrackedNX&) = default;
    TrackedNX& operator=(const TrackedNX&) = default;
    TrackedNX(TrackedNX&& o) noexcept : t(o.t.read_any()) { o.t.mark_moved(); }
    TrackedNX& operator=(TrackedNX&& o) noexcept { t.set(o.t.read_any()); if (&o != this) o.t.mark_moved(); return *this; }
    uint64_t read() const { return t.read(); }
    void set(uint64_t v) { t.set(v); }
    void or_bits(uint64_t b) { t.or_bits(b); }
    uint64_t peek() const { return t.peek(); }
    bool operator==(const TrackedNX& o) const { return t == o.t; }
    bool operator!=(const TrackedNX& o) const { return !(t == o.t); }
};
// A payload with an initializer_list constructor (JSON-like / container-like types): `T{x}` and `T(x)` are different constructors for it.
struct TrackedIL {
    Tracked t;
    bool from_list = false;
    TrackedIL() = default;
    explicit TrackedIL(uint64_t v) : t(v) {}
    TrackedIL(std::initializer_list<TrackedIL> il) : t(uint64_t(0xBADBAD00) + il.size()), from_list(true) {}
    TrackedIL(const TrackedIL&) = default;
    TrackedIL& operator=(const TrackedIL&) = default;
    uint64_t read() const { return t.read(); }
    void set(uint64_t v) { t.set(v); }
    void or_bits(uint64_t b) { t.or_bits(b); }
    uint64_t peek() const { return t.peek(); }
};
static_assert(std::is_nothrow_move_assignable<TrackedNX>::value && std::is_nothrow_move_constructible<TrackedNX>::value, "TrackedNX must be nothrow movable");

// ------------------------------------------------------------------------------------------ QAlloc
struct QLedger {
    struct Blk { void* p; size_t bytes; bool allocated; bool constructed; int id; const char* type; long dealloc_step; bool ever_constructed = false; };
    std::deque<Blk> blks;              // deque: references stay valid across scheduling points inside construct/destroy
    std::unordered_map<void*, int> by_addr;
    long null_destroy = 0, null_dealloc = 0, dealloc_constructed = 0;
    long allocs = 0, deallocs = 0, constructs = 0, destroys = 0;
    bool strict_null = false;          // C13: null destroy/deallocate is a violation
    bool strict_lifecycle = false;     // C13: deallocate of a still-constructed object is a violation
    void (*on_dealloc)(void* p, const char* type) = nullptr;   // family hook (C05 direct rule)
    void reset() {
#ifdef VRT_ASAN
        for (Blk& b : blks) __asan_unpoison_memory_region(b.p, b.bytes);
#endif
        for (Blk& b : blks) std::free(b.p);
        blks.clear(); by_addr.clear();
        null_destroy = null_dealloc = dealloc_constructed = 0;
        allocs = deallocs = constructs = destroys = 0;
        strict_null = strict_lifecycle = false; on_dealloc = nullptr;
    }
    long live_blocks() const { long n = 0; for (const Blk& b : blks) if (b.allocated) n++; return n; }
    long live_objects() const { long n = 0; for (const Blk& b : blks) if (b.constructed) n++; return n; }
    Blk* find(void* p) { auto it = by_addr.find(p); return it == by_addr.end() ? nullptr : &blks[(size_t)it->second]; }
};
inline QLedger& ledger() { static QLedger l; return l; }
inline bool qtrace() { static bool t = std::getenv("VRT_TRACE") != nullptr; return t; }
#define VRT_QTRACE(...) do { if (::vrt::qtrace()) std::fprintf(stderr, __VA_ARGS__); } while (0)

template<class T>
struct QAlloc {
    using value_type = T;
    QAlloc() = default;
    template<class U> QAlloc(const QAlloc<U>&) {}
    template<class U> struct rebind { using other = QAlloc<U>; };
    T* allocate(size_t n) {
        fault_point(F_ALLOC);          // allocation failure (only when the case's fault plan selects this kind)
        QLedger& L = ledger();
        size_t bytes = n * sizeof(T);
        void* p = std::aligned_alloc(alignof(T) < 16 ? 16 : alignof(T), (bytes + 15) / 16 * 16);
        std::memset(p, 0xA5, bytes);
        int id = (int)L.blks.size();
        L.blks.push_back(QLedger::Blk{p, bytes, true, false, id, __PRETTY_FUNCTION__, -1, false});
        L.by_addr[p] = id;
        L.allocs++;
        VRT_QTRACE("[q] step=%ld f%d allocate #%d %p (%zu bytes)\n", rt().res.steps, self(), id, p, bytes);
        return static_cast<T*>(p);
    }
    void deallocate(T* p, size_t) {
        QLedger& L = ledger();
        if (p == nullptr) {
            L.null_dealloc++;
            if (L.strict_null) fail("alloc-null", "deallocate(nullptr) through the list's allocator");
            return;
        }
        QLedger::Blk* b = L.find(p);
        if (!b) fail("alloc-unknown", "deallocate of a pointer the allocator never returned");
        VRT_QTRACE("[q] step=%ld f%d deallocate #%d\n", rt().res.steps, self(), b->id);
        if (!b->allocated) fail("double-free", "block #" + std::to_string(b->id) + " deallocated twice");
        if (b->constructed) {
            L.dealloc_constructed++;
            if (L.strict_lifecycle) fail("dealloc-without-destroy", "block #" + std::to_string(b->id) + " deallocated while its object was never destroyed");
            b->constructed = false;
        }
        if (L.on_dealloc) L.on_dealloc(p, b->type);
        b->allocated = false; b->dealloc_step = rt().res.steps;
        L.deallocs++;
        std::memset(p, 0xDD, b->bytes);
        note_freed(p, b->bytes, b->id);
#ifdef VRT_ASAN
        __asan_poison_memory_region(p, b->bytes);
#endif
    }
    template<class U, class... A> void construct(U* p, A&&... a) {
        QLedger& L = ledger();
        QLedger::Blk* b = L.find(p);
        if (!b || !b->allocated) fail("alloc-unknown", "construct in memory that is not an allocated block");
        VRT_QTRACE("[q] step=%ld f%d construct #%d\n", rt().res.steps, self(), b->id);
        if (b->constructed) fail("double-construct", "construct over a live object");
        ::new ((void*)p) U(std::forward<A>(a)...);     // may throw: then nothing is recorded
        b->constructed = true; b->ever_constructed = true; L.constructs++;
    }
    template<class U> void destroy(U* p) {
        QLedger& L = ledger();
        if (p == nullptr) {
            L.null_destroy++;
            if (L.strict_null) fail("alloc-null", "destroy(nullptr) through the list's allocator");
            return;                                   // recorded, not forwarded (DESIGN §3.1)
        }
        QLedger::Blk* b = L.find(p);
        if (!b) fail("alloc-unknown", "destroy of an object that is not in an allocator block");
        VRT_QTRACE("[q] step=%ld f%d destroy #%d\n", rt().res.steps, self(), b->id);
        if (!b->allocated) fail("use-after-free", "destroy of an object in freed block #" + std::to_string(b->id));
        if (!b->constructed) fail("double-destroy", "destroy of block #" + std::to_string(b->id) + " which holds no live object");
        b->constructed = false; L.destroys++;
        p->~U();
    }
    template<class U> bool operator==(const QAlloc<U>&) const { return true; }
    template<class U> bool operator!=(const QAlloc<U>&) const { return false; }
};

// Stateful variant: not "always equal", carries a tag (libraries select different code paths on allocator traits).
template<class T>
struct QAllocS : QAlloc<T> {
    using value_type = T;
    using is_always_equal = std::false_type;
    using propagate_on_container_move_assignment = std::false_type;
    int tag = 7;
    QAllocS() = default;
    explicit QAllocS(int t) : tag(t) {}
    template<class U> QAllocS(const QAllocS<U>& o) : tag(o.tag) {}
    template<class U> struct rebind { using other = QAllocS<U>; };
    template<class U> bool operator==(const QAllocS<U>& o) const { return tag == o.tag; }
    template<class U> bool operator!=(const QAllocS<U>& o) const { return tag != o.tag; }
};

inline void unpoison_ledger() {
#ifdef VRT_ASAN
    for (auto& b : ledger().blks) __asan_unpoison_memory_region(b.p, b.bytes);
#endif
}

}  // namespace vrt
