// Interposition shim: after this header, `#define std vstd` makes the *unmodified* library headers
// bind std::mutex / timed_mutex / shared_mutex / shared_timed_mutex / condition_variable / atomic /
// this_thread to the modelled versions below, while everything else in std stays the real thing.
// Usage (see DESIGN.md §3.1):
//     #include <rapidcheck.h>
//     #include "vrt/shim.hpp"
//     #define std vstd
//     #include <libguarded/...>
//     #undef std
#pragma once
#include <bits/stdc++.h>
#include <shared_mutex>
#include "vrt.hpp"

namespace vstd {
using namespace ::std;

// ------------------------------------------------------------------------------------------ mutexes
namespace detail {
    inline int draw_patience() {
        uint8_t b = ::vrt::rt().aux_byte();
        if (b == 0) return 80;          // virtual time passes with steps: every timed wait gives up eventually
        return (b - 1) % 6;             // give up after that many further scheduler steps
    }
    constexpr long long UNTIL_NS = 1LL << 61;
    struct base_mutex {
        ::vrt::MutexCore core;
        base_mutex() { if (::vrt::rt().active) ::vrt::rt().mutexes.push_back(&core); }
        base_mutex(const base_mutex&) = delete;
        base_mutex& operator=(const base_mutex&) = delete;
        ~base_mutex() {
            if (::vrt::rt().active && ::vrt::rt().cur && (core.owner >= 0 || core.nshared > 0))
                ::vrt::fail("mutex-destroyed-locked", "a mutex was destroyed while held");
        }
        void acquire_excl() {
            ::vrt::Fiber& f = ::vrt::me();
            core.owner = f.id; f.held++; core.excl_acqs++;
            f.clock.join(core.L); f.clock.join(core.Lr);
            if (::vrt::rt().acquire_hook) ::vrt::rt().acquire_hook(&core, f.id, false);
        }
        void acquire_shared() {
            ::vrt::Fiber& f = ::vrt::me();
            core.nshared++; core.shared_by[f.id]++; f.held++; core.shared_acqs++;
            f.clock.join(core.L);
            if (::vrt::rt().acquire_hook) ::vrt::rt().acquire_hook(&core, f.id, true);
        }
        void lock() {
            if (!::vrt::rt().cur) return;
            ::vrt::check_live_addr(this, "mutex::lock");
            ::vrt::Fiber& f = ::vrt::me();
            f.mutex_ops++;
            if (core.owner == f.id) ::vrt::fail("self-deadlock", "lock() of a non-recursive mutex by its owner");
            if (core.shared_by[f.id]) ::vrt::fail("self-deadlock", "lock() of a mutex the caller holds in shared mode");
            if (!core.can_acquire_excl()) { f.blocking_ops++; core.contended_by[f.id]++; ::vrt::rt().res.blocked_events++; }
            f.pend = ::vrt::P_LOCK; f.pm = &core;
            ::vrt::point();
            f.pend = ::vrt::P_NONE;
            acquire_excl();
        }
        bool try_lock() {
            if (!::vrt::rt().cur) return true;
            ::vrt::check_live_addr(this, "mutex::try_lock");
            ::vrt::Fiber& f = ::vrt::me();
            f.mutex_ops++;
            f.pend = ::vrt::P_NONE;
            ::vrt::point();
            if (core.owner == f.id) ::vrt::fail("self-deadlock", "try_lock() of a non-recursive mutex by its owner");
            if (!core.can_acquire_excl()) { ::vrt::rt().res.blocked_events++; return false; }
            acquire_excl();
            return true;
        }
        void unlock() {
            if (!::vrt::rt().cur) return;
            ::vrt::check_live_addr(this, "mutex::unlock");
            ::vrt::Fiber& f = ::vrt::me();
            f.mutex_ops++;
            f.pend = ::vrt::P_NONE;
            ::vrt::point();
            unlock_nopoint();
            post_unlock_point();
        }
        // optional second scheduling point right after the release (SchedSpec::post_unlock): the code that follows an unlock is
        // not instrumented, so without it nothing can run between the release and that code; with it, library code that still
        // touches the protected state after unlocking meets the other fibers' critical sections
        static void post_unlock_point() {
            if (::vrt::rt().spec && ::vrt::rt().spec->post_unlock) { ::vrt::me().pend = ::vrt::P_NONE; ::vrt::point(); }
        }
        void unlock_nopoint() {
            ::vrt::Fiber& f = ::vrt::me();
            if (core.owner != f.id) ::vrt::fail("unlock-unowned", "unlock() of a mutex the caller does not own");
            core.owner = -1; f.held--;
            core.L = f.clock;
            f.clock.c[f.id]++;
        }
        bool timed_lock(long long ns) {
            bool positive = ns > 0;
            if (!::vrt::rt().cur) return true;
            if (!positive) return try_lock();
            ::vrt::check_live_addr(this, "mutex::try_lock_for");
            ::vrt::Fiber& f = ::vrt::me();
            f.mutex_ops++;
            if (core.owner == f.id) ::vrt::fail("self-deadlock", "timed lock of a non-recursive mutex by its owner");
            if (ns >= UNTIL_NS) { lock(); return true; }       // deadline effectively infinitely far away
            f.timeout_fired = false; f.timed = true; f.patience = 80;
            if (!core.can_acquire_excl()) { f.blocking_ops++; core.contended_by[f.id]++; ::vrt::rt().res.blocked_events++; f.patience = draw_patience(); }
            f.pend = ::vrt::P_TLOCK; f.pm = &core;
            ::vrt::point();
            f.pend = ::vrt::P_NONE; f.timed = false;
            if (core.can_acquire_excl()) { acquire_excl(); return true; }
            f.timed_failures++;
            if (ns < (1LL << 60)) f.waited_ns += ns;       // a wait that gives up has consumed its whole duration of virtual time
            return false;
        }
        // shared side
        void lock_shared() {
            if (!::vrt::rt().cur) return;
            ::vrt::check_live_addr(this, "mutex::lock_shared");
            ::vrt::Fiber& f = ::vrt::me();
            f.mutex_ops++;
            if (core.owner == f.id) ::vrt::fail("self-deadlock", "lock_shared() by the exclusive owner");
            if (!core.can_acquire_shared()) { f.blocking_ops++; core.contended_by[f.id]++; ::vrt::rt().res.blocked_events++; }
            f.pend = ::vrt::P_LOCK_SHARED; f.pm = &core;
            ::vrt::point();
            f.pend = ::vrt::P_NONE;
            acquire_shared();
        }
        bool try_lock_shared() {
            if (!::vrt::rt().cur) return true;
            ::vrt::check_live_addr(this, "mutex::try_lock_shared");
            ::vrt::Fiber& f = ::vrt::me();
            f.mutex_ops++;
            f.pend = ::vrt::P_NONE;
            ::vrt::point();
            if (!core.can_acquire_shared()) { ::vrt::rt().res.blocked_events++; return false; }
            acquire_shared();
            return true;
        }
        void unlock_shared() {
            if (!::vrt::rt().cur) return;
            ::vrt::check_live_addr(this, "mutex::unlock_shared");
            ::vrt::Fiber& f = ::vrt::me();
            f.mutex_ops++;
            f.pend = ::vrt::P_NONE;
            ::vrt::point();
            if (!core.shared_by[f.id]) ::vrt::fail("unlock-unowned", "unlock_shared() without shared ownership");
            core.shared_by[f.id]--; core.nshared--; f.held--;
            core.Lr.join(f.clock);
            f.clock.c[f.id]++;
            post_unlock_point();
        }
        bool timed_lock_shared(long long ns) {
            bool positive = ns > 0;
            if (!::vrt::rt().cur) return true;
            if (!positive) return try_lock_shared();
            ::vrt::check_live_addr(this, "mutex::try_lock_shared_for");
            ::vrt::Fiber& f = ::vrt::me();
            f.mutex_ops++;
            if (core.owner == f.id) ::vrt::fail("self-deadlock", "timed lock_shared by the exclusive owner");
            if (ns >= UNTIL_NS) { lock_shared(); return true; }
            f.timeout_fired = false; f.timed = true; f.patience = 80;
            if (!core.can_acquire_shared()) { f.blocking_ops++; core.contended_by[f.id]++; ::vrt::rt().res.blocked_events++; f.patience = draw_patience(); }
            f.pend = ::vrt::P_TLOCK_SHARED; f.pm = &core;
            ::vrt::point();
            f.pend = ::vrt::P_NONE; f.timed = false;
            if (core.can_acquire_shared()) { acquire_shared(); return true; }
            f.timed_failures++;
            if (ns < (1LL << 60)) f.waited_ns += ns;
            return false;
        }
    };
    template<class Rep, class Period>
    inline long long positive(const ::std::chrono::duration<Rep, Period>& d) {      // duration in ns (0 or negative: plain try)
        if (!(d > d.zero())) return 0;
        auto ns = ::std::chrono::duration_cast<::std::chrono::nanoseconds>(d).count();
        return ns > 0 ? (long long)ns : 1;
    }
    constexpr long long UNTIL = 1LL << 61;        // absolute deadline further than an hour away: the wait effectively never times out
    // absolute deadlines are judged against the (real) clock they are expressed in: a deadline that lies more than an hour ahead makes
    // the wait unbounded in the model, anything nearer is an ordinary timed wait of that length
    template<class C, class D>
    inline long long until_ns(const ::std::chrono::time_point<C, D>& tp) {
        auto rem = tp - C::now();
        if (rem > ::std::chrono::hours(1)) return UNTIL;
        auto ns = ::std::chrono::duration_cast<::std::chrono::nanoseconds>(rem).count();
        return ns > 0 ? (long long)ns : 0;
    }
}  // namespace detail

struct mutex : private detail::base_mutex {
    using detail::base_mutex::lock; using detail::base_mutex::try_lock; using detail::base_mutex::unlock;
    friend struct condition_variable;
    const ::vrt::MutexCore& vrt_core() const { return core; }
};
struct timed_mutex : private detail::base_mutex {
    using detail::base_mutex::lock; using detail::base_mutex::try_lock; using detail::base_mutex::unlock;
    template<class R, class P> bool try_lock_for(const ::std::chrono::duration<R, P>& d) { return timed_lock(detail::positive(d)); }
    template<class C, class D> bool try_lock_until(const ::std::chrono::time_point<C, D>& tp) { return timed_lock(detail::until_ns(tp)); }
    const ::vrt::MutexCore& vrt_core() const { return core; }
};
struct shared_mutex : private detail::base_mutex {
    using detail::base_mutex::lock; using detail::base_mutex::try_lock; using detail::base_mutex::unlock;
    using detail::base_mutex::lock_shared; using detail::base_mutex::try_lock_shared; using detail::base_mutex::unlock_shared;
    const ::vrt::MutexCore& vrt_core() const { return core; }
};
struct shared_timed_mutex : private detail::base_mutex {
    using detail::base_mutex::lock; using detail::base_mutex::try_lock; using detail::base_mutex::unlock;
    using detail::base_mutex::lock_shared; using detail::base_mutex::try_lock_shared; using detail::base_mutex::unlock_shared;
    template<class R, class P> bool try_lock_for(const ::std::chrono::duration<R, P>& d) { return timed_lock(detail::positive(d)); }
    template<class C, class D> bool try_lock_until(const ::std::chrono::time_point<C, D>& tp) { return timed_lock(detail::until_ns(tp)); }
    template<class R, class P> bool try_lock_shared_for(const ::std::chrono::duration<R, P>& d) { return timed_lock_shared(detail::positive(d)); }
    template<class C, class D> bool try_lock_shared_until(const ::std::chrono::time_point<C, D>& tp) { return timed_lock_shared(detail::until_ns(tp)); }
    const ::vrt::MutexCore& vrt_core() const { return core; }
};

// recursive mutex: the owner may lock again (depth counted); other fibers are excluded as with a plain mutex
struct recursive_mutex {
    detail::base_mutex inner;
    int depth = 0;
    void lock() {
        if (!::vrt::rt().cur) return;
        if (inner.core.owner == ::vrt::self()) { ::vrt::me().pend = ::vrt::P_NONE; ::vrt::point(); depth++; return; }
        inner.lock(); depth = 1;
    }
    bool try_lock() {
        if (!::vrt::rt().cur) return true;
        if (inner.core.owner == ::vrt::self()) { ::vrt::me().pend = ::vrt::P_NONE; ::vrt::point(); depth++; return true; }
        if (inner.try_lock()) { depth = 1; return true; }
        return false;
    }
    void unlock() {
        if (!::vrt::rt().cur) return;
        if (inner.core.owner != ::vrt::self()) ::vrt::fail("unlock-unowned", "unlock() of a recursive mutex the caller does not own");
        if (--depth > 0) { ::vrt::me().pend = ::vrt::P_NONE; ::vrt::point(); return; }
        inner.unlock();
    }
};

// ------------------------------------------------------------------------------------------ condition variable
struct condition_variable {
    ::vrt::CvCore cv;
    condition_variable() = default;
    condition_variable(const condition_variable&) = delete;
    condition_variable& operator=(const condition_variable&) = delete;

    void notify_all() noexcept {
        if (!::vrt::rt().cur) return;
        ::vrt::me().pend = ::vrt::P_NONE;
        ::vrt::point();
        for (int id : cv.waiters) ::vrt::rt().fibers[id]->notified = true;
        cv.waiters.clear();
    }
    void notify_one() noexcept {
        if (!::vrt::rt().cur) return;
        ::vrt::me().pend = ::vrt::P_NONE;
        ::vrt::point();
        if (cv.waiters.empty()) return;
        size_t k = cv.waiters.size() > 1 ? ::vrt::rt().aux_byte() % cv.waiters.size() : 0;
        ::vrt::rt().fibers[cv.waiters[k]]->notified = true;
        cv.waiters.erase(cv.waiters.begin() + (long)k);
    }
    // returns true if woken by notify/spurious, false on timeout
    bool wait_impl(::std::unique_lock<mutex>& lk, bool timed, bool expired = false) {
        if (!::vrt::rt().cur) return true;
        ::vrt::Fiber& f = ::vrt::me();
        if (!lk.owns_lock() || lk.mutex()->core.owner != f.id)
            ::vrt::fail("cv-wait-unlocked", "condition_variable::wait without owning the mutex");
        f.blocking_ops++;
        f.pend = ::vrt::P_NONE;
        {   // targeted delay (generated): hold this fiber in the window between "predicate checked" and "registered as a waiter" for a
            // few steps while the others run — the place where a notify that is not ordered by the mutex gets lost
            uint8_t b = ::vrt::rt().aux_byte();
            if ((b & 3) == 2) f.delayed_until = ::vrt::rt().res.steps + 2 + ((b >> 2) & 7);
        }
        ::vrt::point();                       // the window *before* the waiter is registered
        f.delayed_until = -1;
        // atomically: register, release the mutex
        cv.waiters.push_back(f.id);
        f.notified = false; f.timeout_fired = false; f.timed = timed; f.patience = -1; f.spurious_in = -1;
        {
            uint8_t b = ::vrt::rt().aux_byte();
            if ((b & 3) == 1) f.spurious_in = (b >> 2) & 15;      // generated spurious wake-up
            else if (timed && b != 0) f.patience = (b >> 3) % 6; // generated time-out
            if (timed && f.patience < 0) f.patience = 80;        // virtual time passes with steps
            if (timed && expired) f.patience = 0;                 // non-positive duration / deadline already passed: gives up at once
        }
        lk.mutex()->unlock_nopoint();
        f.pend = ::vrt::P_CV; f.pcv = &cv;
        ::vrt::point();
        f.pend = ::vrt::P_NONE; f.timed = false; f.spurious_in = -1;
        bool woken = f.notified;
        if (!woken) cv.waiters.erase(::std::remove(cv.waiters.begin(), cv.waiters.end(), f.id), cv.waiters.end());
        f.notified = false;
        lk.mutex()->lock();
        if (!woken) f.last_timeout_step = ::vrt::rt().res.steps;      // the wait gave up: its mutex is re-acquired at this step
        return woken;
    }
    void wait(::std::unique_lock<mutex>& lk) { wait_impl(lk, false); }
    template<class Pred> void wait(::std::unique_lock<mutex>& lk, Pred pred) { while (!pred()) wait_impl(lk, false); }
    template<class R, class P> ::std::cv_status wait_for(::std::unique_lock<mutex>& lk, const ::std::chrono::duration<R, P>& d) {
        return wait_impl(lk, true, !(d > d.zero())) ? ::std::cv_status::no_timeout : ::std::cv_status::timeout;
    }
    template<class R, class P, class Pred> bool wait_for(::std::unique_lock<mutex>& lk, const ::std::chrono::duration<R, P>& d, Pred pred) {
        while (!pred()) if (!wait_impl(lk, true, !(d > d.zero()))) return pred();
        return true;
    }
    template<class C, class D> ::std::cv_status wait_until(::std::unique_lock<mutex>& lk, const ::std::chrono::time_point<C, D>& tp) {
        return wait_impl(lk, true, !(tp > C::now())) ? ::std::cv_status::no_timeout : ::std::cv_status::timeout;
    }
    template<class C, class D, class Pred> bool wait_until(::std::unique_lock<mutex>& lk, const ::std::chrono::time_point<C, D>& tp, Pred pred) {
        while (!pred()) if (!wait_impl(lk, true, !(tp > C::now()))) return pred();
        return true;
    }
};

// ------------------------------------------------------------------------------------------ atomics
namespace detail {
    inline bool is_acq(::std::memory_order o) { return o == ::std::memory_order_acquire || o == ::std::memory_order_acq_rel || o == ::std::memory_order_seq_cst || o == ::std::memory_order_consume; }
    inline bool is_rel(::std::memory_order o) { return o == ::std::memory_order_release || o == ::std::memory_order_acq_rel || o == ::std::memory_order_seq_cst; }
    struct store_rec {
        uint64_t bits; int writer; uint32_t wclk; ::vrt::VC rel; bool has_rel; int rel_head; bool sc;
    };
    struct seen_rec { uint32_t epoch; int idx; };
    struct atomic_meta {
        // SC mode: release clock of the latest store only
        ::vrt::VC rel; bool has_rel = false; int rel_head = -1;
        // weak mode: full modification order
        ::std::vector<store_rec>* hist = nullptr;
        ::std::vector<seen_rec>* seen = nullptr;   // MAXF small lists, flattened: [fiber*4 + k]
        int last_sc = 0;
        // construction is a plain (non-atomic) write by the constructing fiber: every later access must happen after it
        int init_f = -1; uint32_t init_c = 0;
        // (objects with static storage duration are exempt: the language synchronises their initialisation with every later use)
        atomic_meta() { if (::vrt::rt().active && ::vrt::rt().cur && !::vrt::in_static_storage(this)) { init_f = ::vrt::me().id; init_c = ::vrt::me().clock.c[init_f]; } }
        ~atomic_meta() { delete hist; delete seen; }
    };
}

template<class T>
struct atomic {
    static_assert(sizeof(T) <= 8 && ::std::is_trivially_copyable<T>::value, "modelled atomic supports small trivially copyable types");
    T v;
    mutable detail::atomic_meta m;

    static uint64_t to_bits(T x) { uint64_t b = 0; ::std::memcpy(&b, &x, sizeof(T)); return b; }
    static T from_bits(uint64_t b) { T x; ::std::memcpy(&x, &b, sizeof(T)); return x; }

    atomic() noexcept : v() {}
    constexpr atomic(T x) noexcept : v(x) {}
    atomic(const atomic&) = delete;
    atomic& operator=(const atomic&) = delete;

    // harness-only: forget all history (used for objects that outlive a case, e.g. static trip lines)
    void vrt_reset(T x) {
        v = x; delete m.hist; delete m.seen; m.hist = nullptr; m.seen = nullptr;
        m.rel.clear(); m.has_rel = false; m.rel_head = -1; m.last_sc = 0; m.init_f = -1; m.init_c = 0;
    }
    bool weak_mode() const { return ::vrt::rt().active && ::vrt::rt().cur && ::vrt::rt().spec->weak; }
    void ensure_hist() const {
        if (!m.hist) {
            m.hist = new ::std::vector<detail::store_rec>();
            detail::store_rec r{to_bits(v), -1, 0, m.rel, m.has_rel, m.rel_head, false};
            m.hist->push_back(r);
            m.seen = new ::std::vector<detail::seen_rec>(::vrt::MAXF * 4, detail::seen_rec{0, -1});
        }
    }
    void note_seen(::vrt::Fiber& f, int idx) const {
        detail::seen_rec* s = &(*m.seen)[(size_t)f.id * 4];
        uint32_t ep = f.clock.c[f.id];
        // newest at slot 0; same epoch -> keep max idx
        if (s[0].idx >= 0 && s[0].epoch == ep) { if (idx > s[0].idx) s[0].idx = idx; return; }
        if (s[0].idx >= idx) return;  // nothing new (monotone per fiber)
        // shift; the oldest slot absorbs (over-restricting, hence sound)
        if (s[3].idx >= 0 && s[2].idx >= 0) { s[3].idx = ::std::max(s[3].idx, s[2].idx); s[3].epoch = ::std::min(s[3].epoch, s[2].epoch); }
        else s[3] = s[2];
        s[2] = s[1]; s[1] = s[0]; s[0] = detail::seen_rec{ep, idx};
    }
    int lower_bound_idx(::vrt::Fiber& f, bool sc) const {
        int lo = 0;
        for (int u = 0; u < ::vrt::MAXF; ++u) {
            const detail::seen_rec* s = &(*m.seen)[(size_t)u * 4];
            for (int k = 0; k < 4; ++k) {
                if (s[k].idx < 0) continue;
                if (u == f.id || s[k].epoch <= f.clock.c[u]) { if (s[k].idx > lo) lo = s[k].idx; break; }
            }
        }
        for (int i = (int)m.hist->size() - 1; i > lo; --i) {
            const detail::store_rec& r = (*m.hist)[(size_t)i];
            if (r.writer == f.id || (r.writer >= 0 && r.wclk <= f.clock.c[r.writer])) { lo = i; break; }
        }
        if (sc && m.last_sc > lo) lo = m.last_sc;
        return lo;
    }

    void pre(const char* what) const {
        ::vrt::check_live_addr(this, what);
        ::vrt::me().pend = ::vrt::P_NONE;
        ::vrt::point();
        if (m.init_f >= 0 && m.init_f != ::vrt::me().id && m.init_c > ::vrt::me().clock.c[m.init_f])
            ::vrt::fail("race", ::std::string(what) + " by f" + ::std::to_string(::vrt::me().id) + " is not ordered after the construction of the atomic object by f" + ::std::to_string(m.init_f));
    }

    T load(::std::memory_order o = ::std::memory_order_seq_cst) const noexcept {
        if (!::vrt::rt().cur) return v;
        pre("atomic::load");
        ::vrt::Fiber& f = ::vrt::me();
        if (!weak_mode() && !m.hist) {
            if (detail::is_acq(o) && m.has_rel) f.clock.join(m.rel);
            return v;
        }
        ensure_hist();
        int last = (int)m.hist->size() - 1;
        int lo = lower_bound_idx(f, o == ::std::memory_order_seq_cst);
        int idx = last;
        if (lo < last && weak_mode()) {
            ::vrt::rt().res.stale_possible++;
            uint8_t b = ::vrt::rt().aux_byte();
            idx = last - (int)((unsigned)b % (unsigned)(last - lo + 1));      // (range may exceed 255 after long store histories)
            if (idx != last) ::vrt::rt().res.stale_reads++;
        }
        note_seen(f, idx);
        const detail::store_rec& r = (*m.hist)[(size_t)idx];
        if (detail::is_acq(o) && r.has_rel) f.clock.join(r.rel);
        return from_bits(r.bits);
    }
    void do_store(T x, ::std::memory_order o, bool rmw, bool acq_part) noexcept {
        ::vrt::Fiber& f = ::vrt::me();
        bool rel = detail::is_rel(o);
        if (!m.hist && !weak_mode()) {
            if (rmw) {
                if (acq_part && m.has_rel) f.clock.join(m.rel);
                if (rel) { if (m.has_rel) m.rel.join(f.clock); else { m.rel = f.clock; m.has_rel = true; m.rel_head = f.id; } }
            } else {
                if (rel) { m.rel = f.clock; m.has_rel = true; m.rel_head = f.id; }
                else if (!(m.has_rel && m.rel_head == f.id)) { m.has_rel = false; m.rel_head = -1; }
            }
            v = x;
            if (rel) f.clock.c[f.id]++;
            return;
        }
        ensure_hist();
        const detail::store_rec prev = m.hist->back();
        detail::store_rec r{to_bits(x), f.id, f.clock.c[f.id], ::vrt::VC(), false, -1, o == ::std::memory_order_seq_cst};
        if (rmw) {
            if (acq_part && prev.has_rel) f.clock.join(prev.rel);
            if (prev.has_rel) { r.rel = prev.rel; r.has_rel = true; r.rel_head = prev.rel_head; }
            if (rel) { if (r.has_rel) r.rel.join(f.clock); else { r.rel = f.clock; r.has_rel = true; r.rel_head = f.id; } }
        } else {
            if (rel) { r.rel = f.clock; r.has_rel = true; r.rel_head = f.id; }
            else if (prev.has_rel && prev.rel_head == f.id) { r.rel = prev.rel; r.has_rel = true; r.rel_head = f.id; }
        }
        r.wclk = f.clock.c[f.id];
        m.hist->push_back(r);
        int idx = (int)m.hist->size() - 1;
        if (r.sc) m.last_sc = idx;
        note_seen(f, idx);
        v = x;
        m.rel = r.rel; m.has_rel = r.has_rel; m.rel_head = r.rel_head;
        if (rel) f.clock.c[f.id]++;
    }
    T latest_for_rmw(::std::memory_order) const { return v; }

    void store(T x, ::std::memory_order o = ::std::memory_order_seq_cst) noexcept {
        if (!::vrt::rt().cur) { v = x; return; }
        pre("atomic::store");
        do_store(x, o, false, false);
    }
    T exchange(T x, ::std::memory_order o = ::std::memory_order_seq_cst) noexcept {
        if (!::vrt::rt().cur) { T old = v; v = x; return old; }
        pre("atomic::exchange");
        T old = v;
        do_store(x, o, true, detail::is_acq(o));
        return old;
    }
    bool cas(T& expected, T desired, ::std::memory_order so, ::std::memory_order fo, bool weak) noexcept {
        if (!::vrt::rt().cur) { if (to_bits(v) == to_bits(expected)) { v = desired; return true; } expected = v; return false; }
        pre("atomic::compare_exchange");
        ::vrt::Fiber& f = ::vrt::me();
        if (weak && (::vrt::rt().aux_byte() & 0x1f) == 0x11) {
            // spurious failure: behaves as a load of the latest value with the failure order (allowed)
            if (detail::is_acq(fo) && m.has_rel) f.clock.join(m.rel);
            if (m.hist) note_seen(f, (int)m.hist->size() - 1);
            // expected is left unchanged on a spurious failure only if it equals the current value; report current
            expected = v;
            return false;
        }
        if (to_bits(v) == to_bits(expected)) { do_store(desired, so, true, detail::is_acq(so)); return true; }
        if (detail::is_acq(fo) && m.has_rel) f.clock.join(m.rel);
        if (m.hist) note_seen(f, (int)m.hist->size() - 1);
        expected = v;
        return false;
    }
    static ::std::memory_order fail_order(::std::memory_order o) {
        return o == ::std::memory_order_acq_rel ? ::std::memory_order_acquire : o == ::std::memory_order_release ? ::std::memory_order_relaxed : o;
    }
    bool compare_exchange_weak(T& e, T d, ::std::memory_order o = ::std::memory_order_seq_cst) noexcept { return cas(e, d, o, fail_order(o), true); }
    bool compare_exchange_weak(T& e, T d, ::std::memory_order s, ::std::memory_order f) noexcept { return cas(e, d, s, f, true); }
    bool compare_exchange_strong(T& e, T d, ::std::memory_order o = ::std::memory_order_seq_cst) noexcept { return cas(e, d, o, fail_order(o), false); }
    bool compare_exchange_strong(T& e, T d, ::std::memory_order s, ::std::memory_order f) noexcept { return cas(e, d, s, f, false); }

    template<class U = T> typename ::std::enable_if<::std::is_integral<U>::value && !::std::is_same<U, bool>::value, T>::type
    fetch_add(T d, ::std::memory_order o = ::std::memory_order_seq_cst) noexcept {
        if (!::vrt::rt().cur) { T old = v; v = (T)(v + d); return old; }
        pre("atomic::fetch_add");
        T old = v; do_store((T)(old + d), o, true, detail::is_acq(o)); return old;
    }
    template<class U = T> typename ::std::enable_if<::std::is_integral<U>::value && !::std::is_same<U, bool>::value, T>::type
    fetch_sub(T d, ::std::memory_order o = ::std::memory_order_seq_cst) noexcept {
        if (!::vrt::rt().cur) { T old = v; v = (T)(v - d); return old; }
        pre("atomic::fetch_sub");
        T old = v; do_store((T)(old - d), o, true, detail::is_acq(o)); return old;
    }
    template<class U = T> typename ::std::enable_if<::std::is_integral<U>::value, T>::type
    fetch_or(T d, ::std::memory_order o = ::std::memory_order_seq_cst) noexcept {
        if (!::vrt::rt().cur) { T old = v; v = (T)(v | d); return old; }
        pre("atomic::fetch_or");
        T old = v; do_store((T)(old | d), o, true, detail::is_acq(o)); return old;
    }
    template<class U = T> typename ::std::enable_if<::std::is_integral<U>::value, T>::type
    fetch_and(T d, ::std::memory_order o = ::std::memory_order_seq_cst) noexcept {
        if (!::vrt::rt().cur) { T old = v; v = (T)(v & d); return old; }
        pre("atomic::fetch_and");
        T old = v; do_store((T)(old & d), o, true, detail::is_acq(o)); return old;
    }
    T operator++() noexcept { return (T)(fetch_add(1) + 1); }
    T operator++(int) noexcept { return fetch_add(1); }
    T operator--() noexcept { return (T)(fetch_sub(1) - 1); }
    T operator--(int) noexcept { return fetch_sub(1); }
    T operator+=(T d) noexcept { return (T)(fetch_add(d) + d); }
    T operator-=(T d) noexcept { return (T)(fetch_sub(d) - d); }

    operator T() const noexcept { return load(); }
    T operator=(T x) noexcept { store(x); return x; }
    bool is_lock_free() const noexcept { return true; }
};
using atomic_bool = atomic<bool>;
using atomic_int = atomic<int>;
using atomic_uint = atomic<unsigned>;
using atomic_size_t = atomic<::std::size_t>;

// ------------------------------------------------------------------------------------------ this_thread
namespace this_thread {
    using ::std::this_thread::get_id;
    inline void yield() noexcept { ::vrt::yield_now(); }
    template<class R, class P> inline void sleep_for(const ::std::chrono::duration<R, P>&) { ::vrt::yield_now(); }
    template<class C, class D> inline void sleep_until(const ::std::chrono::time_point<C, D>&) { ::vrt::yield_now(); }
}

}  // namespace vstd
