// Small WGL-style linearizability checker for recorded call/return histories (<= 20 operations).
// `step(model, op)` applies op to the model and returns true iff the recorded result is what the sequential
// specification produces in that state.  `key(model)` returns a hashable summary of the model for memoisation.
#pragma once
#include <vector>
#include <unordered_set>
#include <cstdint>
#include <string>

namespace vlin {

struct Interval { long call, ret; };   // ret < 0: the call never returned (pending) — may be linearised or dropped

template<class Model, class Op, class Step, class Key>
bool linearizable(const std::vector<Op>& ops, const std::vector<Interval>& iv, const Model& init, Step step, Key key, long* explored = nullptr) {
    const size_t n = ops.size();
    if (n == 0) return true;
    if (n > 24) return true;   // too long to decide: abstain
    std::unordered_set<std::string> dead;
    struct Frame { uint32_t mask; Model m; };
    std::vector<Frame> stack;
    stack.push_back({0u, init});
    const uint32_t full = n == 32 ? 0xffffffffu : ((1u << n) - 1);
    long cnt = 0;
    while (!stack.empty()) {
        Frame f = stack.back(); stack.pop_back();
        ++cnt;
        // all returned ops linearised?  (pending ones may be dropped)
        bool done = true;
        for (size_t i = 0; i < n; ++i) if (!(f.mask & (1u << i)) && iv[i].ret >= 0) { done = false; break; }
        if (done) { if (explored) *explored = cnt; return true; }
        std::string k = std::to_string(f.mask) + "|" + key(f.m);
        if (!dead.insert(k).second) continue;
        // minimal ops: no other unlinearised op returned before this one was called
        long min_ret = -1;
        for (size_t i = 0; i < n; ++i) if (!(f.mask & (1u << i)) && iv[i].ret >= 0 && (min_ret < 0 || iv[i].ret < min_ret)) min_ret = iv[i].ret;
        for (size_t i = 0; i < n; ++i) {
            if (f.mask & (1u << i)) continue;
            if (min_ret >= 0 && iv[i].call > min_ret) continue;
            Model m2 = f.m;
            if (step(m2, ops[i])) stack.push_back({f.mask | (1u << i), std::move(m2)});
        }
        (void)full;
    }
    if (explored) *explored = cnt;
    return false;
}

}  // namespace vlin
