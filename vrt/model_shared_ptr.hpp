// Optional model of std::shared_ptr for harness translation units that define VRT_EXTRA_MODEL_HEADER to this file (family lrcow):
// a thin wrapper around the real std::shared_ptr in which *the smart-pointer object itself* is race-checked by the happens-before
// monitor - copying from it and dereferencing it are reads of that object, assigning / moving / resetting it are writes.  cow_guarded
// keeps its committed value in two such objects inside an lr_guarded; a protocol error that lets a writer overwrite the slot a reader is
// still copying from is invisible otherwise, because the copy is uninstrumented standard-library code (seeded change C04-i).
// Ownership, reference counts and deleters are those of the wrapped real shared_ptr.
#pragma once
#include <memory>
#include <type_traits>

namespace vstd {

template<class T>
class shared_ptr {
    ::std::shared_ptr<T> p_;
    mutable ::vrt::Shadow sh_;
    template<class U> friend class shared_ptr;
    static constexpr const char* kWhat = "shared_ptr object (the slot holding the committed value)";

  public:
    using element_type = typename ::std::shared_ptr<T>::element_type;
    constexpr shared_ptr() noexcept = default;
    constexpr shared_ptr(::std::nullptr_t) noexcept {}
    template<class Y, class = ::std::enable_if_t<::std::is_convertible<Y*, T*>::value>>
    explicit shared_ptr(Y* p) : p_(p) {}
    shared_ptr(::std::shared_ptr<T> real) noexcept : p_(::std::move(real)) {}          // from the real type (make_shared below)
    // the remaining constructors of std::shared_ptr, forwarded (so that library code that uses them still compiles against the model)
    template<class Y, class D, class = ::std::enable_if_t<::std::is_convertible<Y*, T*>::value>>
    shared_ptr(Y* p, D d) : p_(p, ::std::move(d)) {}
    template<class D> shared_ptr(::std::nullptr_t, D d) : p_(nullptr, ::std::move(d)) {}
    template<class Y, class D, class A, class = ::std::enable_if_t<::std::is_convertible<Y*, T*>::value>>
    shared_ptr(Y* p, D d, A a) : p_(p, ::std::move(d), ::std::move(a)) {}
    template<class Y> shared_ptr(const shared_ptr<Y>& r, element_type* ptr) noexcept : p_((::vrt::hb_read(r.sh_, kWhat), r.p_), ptr) {}      // aliasing
    template<class Y, class D, class = ::std::enable_if_t<::std::is_convertible<Y*, T*>::value>>
    shared_ptr(::std::unique_ptr<Y, D>&& u) : p_(::std::move(u)) {}
    template<class Y> explicit shared_ptr(const ::std::weak_ptr<Y>& w) : p_(w) {}
    shared_ptr(const shared_ptr& o) noexcept : p_((::vrt::hb_read(o.sh_, kWhat), o.p_)) {}
    template<class Y, class = ::std::enable_if_t<::std::is_convertible<Y*, T*>::value>>
    shared_ptr(const shared_ptr<Y>& o) noexcept : p_((::vrt::hb_read(o.sh_, kWhat), o.p_)) {}
    shared_ptr(shared_ptr&& o) noexcept : p_((::vrt::hb_write(o.sh_, kWhat), ::std::move(o.p_))) {}
    template<class Y, class = ::std::enable_if_t<::std::is_convertible<Y*, T*>::value>>
    shared_ptr(shared_ptr<Y>&& o) noexcept : p_((::vrt::hb_write(o.sh_, kWhat), ::std::move(o.p_))) {}
    shared_ptr& operator=(const shared_ptr& o) noexcept { ::vrt::hb_read(o.sh_, kWhat); ::vrt::hb_write(sh_, kWhat); p_ = o.p_; return *this; }
    template<class Y, class = ::std::enable_if_t<::std::is_convertible<Y*, T*>::value>>
    shared_ptr& operator=(const shared_ptr<Y>& o) noexcept { ::vrt::hb_read(o.sh_, kWhat); ::vrt::hb_write(sh_, kWhat); p_ = o.p_; return *this; }
    shared_ptr& operator=(shared_ptr&& o) noexcept { if (this != &o) { ::vrt::hb_write(o.sh_, kWhat); ::vrt::hb_write(sh_, kWhat); p_ = ::std::move(o.p_); } return *this; }
    template<class Y, class = ::std::enable_if_t<::std::is_convertible<Y*, T*>::value>>
    shared_ptr& operator=(shared_ptr<Y>&& o) noexcept { ::vrt::hb_write(o.sh_, kWhat); ::vrt::hb_write(sh_, kWhat); p_ = ::std::move(o.p_); return *this; }
    ~shared_ptr() = default;

    void reset() noexcept { ::vrt::hb_write(sh_, kWhat); p_.reset(); }
    template<class Y> void reset(Y* p) { ::vrt::hb_write(sh_, kWhat); p_.reset(p); }
    void swap(shared_ptr& o) noexcept { ::vrt::hb_write(sh_, kWhat); ::vrt::hb_write(o.sh_, kWhat); p_.swap(o.p_); }
    element_type* get() const noexcept { ::vrt::hb_read(sh_, kWhat); return p_.get(); }
    element_type& operator*() const noexcept { ::vrt::hb_read(sh_, kWhat); return *p_; }
    element_type* operator->() const noexcept { ::vrt::hb_read(sh_, kWhat); return p_.get(); }
    long use_count() const noexcept { return p_.use_count(); }
    explicit operator bool() const noexcept { return static_cast<bool>(p_); }
    bool unique() const noexcept { return p_.use_count() == 1; }
    template<class Y> bool owner_before(const shared_ptr<Y>& o) const noexcept { return p_.owner_before(o.p_); }
    const ::std::shared_ptr<T>& vrt_real() const noexcept { return p_; }
};

// weak_ptr over the model: observes the wrapped real shared_ptr
template<class T>
class weak_ptr {
    ::std::weak_ptr<T> w_;
  public:
    constexpr weak_ptr() noexcept = default;
    template<class Y, class = ::std::enable_if_t<::std::is_convertible<Y*, T*>::value>>
    weak_ptr(const shared_ptr<Y>& s) noexcept : w_(s.vrt_real()) {}
    weak_ptr(const weak_ptr&) noexcept = default;
    weak_ptr(weak_ptr&&) noexcept = default;
    weak_ptr& operator=(const weak_ptr&) noexcept = default;
    weak_ptr& operator=(weak_ptr&&) noexcept = default;
    template<class Y> weak_ptr& operator=(const shared_ptr<Y>& s) noexcept { w_ = s.vrt_real(); return *this; }
    shared_ptr<T> lock() const noexcept { return shared_ptr<T>(w_.lock()); }
    bool expired() const noexcept { return w_.expired(); }
    long use_count() const noexcept { return w_.use_count(); }
    void reset() noexcept { w_.reset(); }
};
template<class T, class U> shared_ptr<T> static_pointer_cast(const shared_ptr<U>& r) noexcept { return shared_ptr<T>(::std::static_pointer_cast<T>(r.vrt_real())); }
template<class T, class U> shared_ptr<T> const_pointer_cast(const shared_ptr<U>& r) noexcept { return shared_ptr<T>(::std::const_pointer_cast<T>(r.vrt_real())); }
template<class T, class U> shared_ptr<T> dynamic_pointer_cast(const shared_ptr<U>& r) noexcept { return shared_ptr<T>(::std::dynamic_pointer_cast<T>(r.vrt_real())); }
template<class T> void swap(shared_ptr<T>& a, shared_ptr<T>& b) noexcept { a.swap(b); }
template<class T, class U> bool operator<(const shared_ptr<T>& a, const shared_ptr<U>& b) noexcept { return a.vrt_real() < b.vrt_real(); }

template<class T, class U> bool operator==(const shared_ptr<T>& a, const shared_ptr<U>& b) noexcept { return a.vrt_real() == b.vrt_real(); }
template<class T, class U> bool operator!=(const shared_ptr<T>& a, const shared_ptr<U>& b) noexcept { return !(a == b); }
template<class T> bool operator==(const shared_ptr<T>& a, ::std::nullptr_t) noexcept { return !a; }
template<class T> bool operator!=(const shared_ptr<T>& a, ::std::nullptr_t) noexcept { return static_cast<bool>(a); }
template<class T> bool operator==(::std::nullptr_t, const shared_ptr<T>& a) noexcept { return !a; }
template<class T> bool operator!=(::std::nullptr_t, const shared_ptr<T>& a) noexcept { return static_cast<bool>(a); }

template<class T, class... A>
shared_ptr<T> make_shared(A&&... a) { return shared_ptr<T>(::std::make_shared<T>(::std::forward<A>(a)...)); }

}  // namespace vstd
