// Optional model of std::shared_ptr for harness translation units that define VRT_EXTRA_MODEL_HEADER to this file (family lrcow):
// a thin wrapper around the real std::shared_ptr in which *the smart-pointer object itself* is race-checked by the happens-before
// monitor - copying from it and dereferencing it are reads of that object, assigning / moving / resetting it are writes.  cow_guarded
// keeps its committed value in two such objects inside an lr_guarded; a protocol error that lets a writer overwrite the slot a reader is
// still copying from is invisible otherwise, because the copy is uninstrumented standard-library code (seeded change C04-i).
// Ownership, reference counts and deleters are those of the wrapped real shared_ptr.
#pragma once
#include <memory>
#include <type_traits>

namespace vstd {

template<class T>
class shared_ptr {
    ::std::shared_ptr<T> p_;
    mutable ::vrt::Shadow sh_;
    template<class U> friend class shared_ptr;
    static constexpr const char* kWhat = "shared_ptr object (the slot holding the committed value)";

  public:
    using element_type = typename ::std::shared_ptr<T>::element_type;
    constexpr shared_ptr() noexcept = default;
    constexpr shared_ptr(::std::nullptr_t) noexcept {}
    template<class Y, class = ::std::enable_if_t<::std::is_convertible<Y*, T*>::value>>
    explicit shared_ptr(Y* p) : p_(p) {}
    shared_ptr(::std::shared_ptr<T> real) noexcept : p_(::std::move(real)) {}          // from the real type (make_shared below)
    shared_ptr(const shared_ptr& o) noexcept : p_((::vrt::hb_read(o.sh_, kWhat), o.p_)) {}
    template<class Y, class = ::std::enable_if_t<::std::is_convertible<Y*, T*>::value>>
    shared_ptr(const shared_ptr<Y>& o) noexcept : p_((::vrt::hb_read(o.sh_, kWhat), o.p_)) {}
    shared_ptr(shared_ptr&& o) noexcept : p_((::vrt::hb_write(o.sh_, kWhat), ::std::move(o.p_))) {}
    template<class Y, class = ::std::enable_if_t<::std::is_convertible<Y*, T*>::value>>
    shared_ptr(shared_ptr<Y>&& o) noexcept : p_((::vrt::hb_write(o.sh_, kWhat), ::std::move(o.p_))) {}
    shared_ptr& operator=(const shared_ptr& o) noexcept { ::vrt::hb_read(o.sh_, kWhat); ::vrt::hb_write(sh_, kWhat); p_ = o.p_; return *this; }
    template<class Y, class = ::std::enable_if_t<::std::is_convertible<Y*, T*>::value>>
    shared_ptr& operator=(const shared_ptr<Y>& o) noexcept { ::vrt::hb_read(o.sh_, kWhat); ::vrt::hb_write(sh_, kWhat); p_ = o.p_; return *this; }
    shared_ptr& operator=(shared_ptr&& o) noexcept { if (this != &o) { ::vrt::hb_write(o.sh_, kWhat); ::vrt::hb_write(sh_, kWhat); p_ = ::std::move(o.p_); } return *this; }
    template<class Y, class = ::std::enable_if_t<::std::is_convertible<Y*, T*>::value>>
    shared_ptr& operator=(shared_ptr<Y>&& o) noexcept { ::vrt::hb_write(o.sh_, kWhat); ::vrt::hb_write(sh_, kWhat); p_ = ::std::move(o.p_); return *this; }
    ~shared_ptr() = default;

    void reset() noexcept { ::vrt::hb_write(sh_, kWhat); p_.reset(); }
    template<class Y> void reset(Y* p) { ::vrt::hb_write(sh_, kWhat); p_.reset(p); }
    void swap(shared_ptr& o) noexcept { ::vrt::hb_write(sh_, kWhat); ::vrt::hb_write(o.sh_, kWhat); p_.swap(o.p_); }
    element_type* get() const noexcept { ::vrt::hb_read(sh_, kWhat); return p_.get(); }
    element_type& operator*() const noexcept { ::vrt::hb_read(sh_, kWhat); return *p_; }
    element_type* operator->() const noexcept { ::vrt::hb_read(sh_, kWhat); return p_.get(); }
    long use_count() const noexcept { return p_.use_count(); }
    explicit operator bool() const noexcept { return static_cast<bool>(p_); }
    const ::std::shared_ptr<T>& vrt_real() const noexcept { return p_; }
};

template<class T, class U> bool operator==(const shared_ptr<T>& a, const shared_ptr<U>& b) noexcept { return a.vrt_real() == b.vrt_real(); }
template<class T, class U> bool operator!=(const shared_ptr<T>& a, const shared_ptr<U>& b) noexcept { return !(a == b); }
template<class T> bool operator==(const shared_ptr<T>& a, ::std::nullptr_t) noexcept { return !a; }
template<class T> bool operator!=(const shared_ptr<T>& a, ::std::nullptr_t) noexcept { return static_cast<bool>(a); }
template<class T> bool operator==(::std::nullptr_t, const shared_ptr<T>& a) noexcept { return !a; }
template<class T> bool operator!=(::std::nullptr_t, const shared_ptr<T>& a) noexcept { return static_cast<bool>(a); }

template<class T, class... A>
shared_ptr<T> make_shared(A&&... a) { return shared_ptr<T>(::std::make_shared<T>(::std::forward<A>(a)...)); }

}  // namespace vstd
