// vrt — deterministic cooperative runtime whose schedule, timeouts, spurious wake-ups, stale reads
// and faults are *data* (part of the generated case).  See DESIGN.md §3.1.
//
// Single OS thread, ucontext fibers.  No RNG, no wall clock.  Header-only on purpose: every
// family harness is one translation unit.
#pragma once
#include <ucontext.h>
#include <sys/mman.h>
#include <cstdint>
#include <cstdio>
#include <cstdlib>
#include <cstring>
#include <string>
#include <stdexcept>
#include <vector>
#include <functional>
#include <algorithm>
#include <cxxabi.h>

#if defined(__has_feature)
#  if __has_feature(address_sanitizer)
#    define VRT_ASAN 1
#  endif
#endif
#if defined(__SANITIZE_ADDRESS__) && !defined(VRT_ASAN)
#  define VRT_ASAN 1
#endif
#ifdef VRT_ASAN
extern "C" {
void __sanitizer_start_switch_fiber(void** fake_stack_save, const void* bottom, size_t size);
void __sanitizer_finish_switch_fiber(void* fake_stack_save, const void** bottom_old, size_t* size_old);
void __asan_unpoison_memory_region(void const volatile* addr, size_t size);
void __asan_poison_memory_region(void const volatile* addr, size_t size);
}
#endif

namespace __cxxabiv1 { struct __cxa_eh_globals; extern "C" __cxa_eh_globals* __cxa_get_globals() noexcept; }

namespace vrt {

#ifndef VRT_MAXF
#define VRT_MAXF 8      // fiber slots per case; the "crowd" build flavour raises it to hold hundreds of blocked waiters
#endif
constexpr int MAXF = VRT_MAXF;

// ------------------------------------------------------------------------------------------ clocks
struct VC {
    uint32_t c[MAXF];
    VC() { std::memset(c, 0, sizeof c); }
    void join(const VC& o) { for (int i = 0; i < MAXF; ++i) if (o.c[i] > c[i]) c[i] = o.c[i]; }
    bool leq(const VC& o) const { for (int i = 0; i < MAXF; ++i) if (c[i] > o.c[i]) return false; return true; }
    void clear() { std::memset(c, 0, sizeof c); }
};

// ------------------------------------------------------------------------------------------ case-level inputs
struct SchedSpec {
    int mode = 0;                      // 0 list, 1 pct, 2 rr
    std::vector<uint8_t> bytes;        // decisions (list) / priorities+change points (pct)
    std::vector<uint8_t> aux;          // timeouts, spurious wake-ups, weak CAS failures, stale reads, notify_one target
    bool weak = false;                 // weak-memory mode (stale reads allowed where C++11 allows them)
    int fault_k = 0;                   // k-th fault point throws (0 = none)
    unsigned fault_mask = ~0u;         // which kinds of fault point count
    bool fault_std = false;            // the injected exception derives from std::exception (else: a plain struct)
    long step_budget = 20000;
    bool post_unlock = false;          // an additional scheduling point directly after every mutex release
};

// What a fault point throws.  Two flavours, chosen by the fault plan (SchedSpec::fault_std): a plain struct that is *not* derived from
// std::exception (library code that only handles std::exception mishandles it), and a class derived from a standard exception with a
// payload of its own (library code that slices or re-wraps std::exception mishandles that one).  Harness code catches the base.
struct InjectedFault { int at; };
struct InjectedStdFault : std::runtime_error, InjectedFault { explicit InjectedStdFault(int a) : std::runtime_error("injected fault"), InjectedFault{a} {} };

struct Result {
    bool violation = false;
    bool inconclusive = false;         // budget exhausted without livelock confirmation
    std::string kind;                  // short machine-readable kind: "race", "deadlock", ...
    std::string msg;
    long steps = 0;
    long decisions = 0;                // scheduling decisions with a real choice
    long preemptions = 0;
    uint64_t trace_hash = 1469598103934665603ull;
    long stale_reads = 0;              // loads that returned a non-latest store (weak mode)
    long stale_possible = 0;
    long timeouts_fired = 0;
    long spurious_wakes = 0;
    long faults_fired = 0;
    long blocked_events = 0;           // acquisitions that found the mutex held
};

enum PendKind : uint8_t { P_NONE, P_LOCK, P_LOCK_SHARED, P_TLOCK, P_TLOCK_SHARED, P_CV, P_JOIN_ALL, P_JOIN_ONE, P_JOIN_BOUNDED };

struct MutexCore;
struct CvCore;

struct Fiber {
    ucontext_t ctx;
    char* stack = nullptr;
    size_t stack_size = 0;
    int id = 0;
    std::function<void()> fn;
    bool started = false, done = false;
    PendKind pend = P_NONE;
    MutexCore* pm = nullptr;
    CvCore* pcv = nullptr;
    int join_target = -1;
    long join_deadline = 0;            // global step at which a bounded join gives up
    int join_status = 0;               // 0 finished, 1 stuck (nothing runnable), 2 step bound hit
    VC clock;
    bool yielded = false;
    bool frozen = false;
    long freeze_at = -1;               // freeze when own_steps reaches this (C14)
    long own_steps = 0;
    long last_run = 0;                 // global step at which the fiber last ran (default choice = least recently run)
    int patience = -1;                 // decisions left before a timed wait gives up (-1: only when nothing else can run)
    bool timed = false;                // current pending op is timed
    bool timeout_fired = false;
    bool notified = false;
    int spurious_in = -1;
    int held = 0;                      // modelled mutexes currently held (exclusive or shared)
    long mutex_ops = 0;                // modelled mutex operations executed
    long blocking_ops = 0;             // contended lock / cv wait / yield executed
    long timed_failures = 0;           // timed lock attempts that gave up
    long long waited_ns = 0;
    long last_timeout_step = -1;
    int bulk = 0;                      // >0: plain (always enabled) steps of this fiber are not scheduling points (BulkScope)
    long delayed_until = -1;           // targeted delay: not runnable before this global step while other fibers can run (cv-entry window attack)
    bool fault_window = false;         // this fiber is inside a region where windowed faults may fire       // global step at which this fiber's latest timed wait was declared timed out           // virtual time spent in timed waits that gave up (each consumes its full duration)
    char eh[32];
    void* asan_fake = nullptr;
    int prio = 0;
};

struct Runtime;
inline Runtime& rt();

// Freed-block registry (filled by QAlloc); every modelled atomic checks its own address against it.
struct FreedBlock { uintptr_t lo, hi; int id; };

struct Runtime {
    std::vector<Fiber*> pool;          // all fiber objects ever created (stacks reused)
    std::vector<Fiber*> fibers;        // fibers of the current case
    Fiber* cur = nullptr;
    ucontext_t root;
    char root_eh[32];
    void* root_fake = nullptr;
    const SchedSpec* spec = nullptr;
    size_t sched_pos = 0, aux_pos = 0;
    Result res;
    bool active = false;               // inside run()
    bool abandoned = false;
    bool rr_mode = false;              // livelock confirmation phase
    long rr_limit = 0;
    int rr_next = 0;
    long fault_counter = 0;
    bool faults_off = false;           // set by a harness before its final observation phase
    bool faults_need_window = false;   // faults fire only while the current fiber has opened a fault window
    std::vector<FreedBlock> freed;
    std::vector<MutexCore*> mutexes;   // modelled mutexes constructed during the case, in construction order
    // pct
    std::vector<long> pct_change;
    int pct_low = 0;
    // user hook called at every step (family-specific monitors), optional
    void (*step_hook)() = nullptr;
    // called whenever a fiber acquires a modelled mutex (after the acquisition), optional
    void (*acquire_hook)(MutexCore*, int fiber, bool shared) = nullptr;

    uint8_t sched_byte() { return sched_pos < spec->bytes.size() ? spec->bytes[sched_pos++] : 0; }
    uint8_t aux_byte() { return aux_pos < spec->aux.size() ? spec->aux[aux_pos++] : 0; }
};

inline Runtime& rt() { static Runtime r; return r; }

inline int self() { return rt().cur ? rt().cur->id : 0; }
// true if p lies in the executable's .data / .bss (namespace-scope and function-local statics)
extern "C" { extern char __data_start; extern char _end; }
inline bool in_static_storage(const void* p) { const char* c = static_cast<const char*>(p); return c >= &__data_start && c < &_end; }
inline Fiber& me() { return *rt().cur; }
inline long now_step() { return rt().res.steps; }

// ------------------------------------------------------------------------------------------ context switching
inline void save_eh(char* dst) { std::memcpy(dst, (void*)__cxxabiv1::__cxa_get_globals(), 16); }
inline void load_eh(const char* src) { std::memcpy((void*)__cxxabiv1::__cxa_get_globals(), src, 16); }

inline void switch_ctx(ucontext_t* from, char* from_eh, void** from_fake, ucontext_t* to, const char* to_eh,
                       const void* to_bottom, size_t to_size, bool from_dies) {
    save_eh(from_eh);
    load_eh(to_eh);
#ifdef VRT_ASAN
    __sanitizer_start_switch_fiber(from_dies ? nullptr : from_fake, to_bottom, to_size);
#else
    (void)from_fake; (void)to_bottom; (void)to_size; (void)from_dies;
#endif
    swapcontext(from, to);
#ifdef VRT_ASAN
    __sanitizer_finish_switch_fiber(*from_fake, nullptr, nullptr);
#endif
}

struct RootStack { const void* bottom = nullptr; size_t size = 0; };
inline RootStack& root_stack() { static RootStack r; return r; }

inline void switch_to_fiber(Fiber* to) {
    Runtime& R = rt();
    Fiber* from = R.cur;
    R.cur = to;
    if (from) switch_ctx(&from->ctx, from->eh, &from->asan_fake, &to->ctx, to->eh, to->stack, to->stack_size, from->done);
    else      switch_ctx(&R.root, R.root_eh, &R.root_fake, &to->ctx, to->eh, to->stack, to->stack_size, false);
}

[[noreturn]] inline void switch_to_root() {
    Runtime& R = rt();
    Fiber* from = R.cur;
    R.cur = nullptr;
    save_eh(from->eh);
    load_eh(R.root_eh);
#ifdef VRT_ASAN
    __sanitizer_start_switch_fiber(nullptr, root_stack().bottom, root_stack().size);
#endif
    setcontext(&R.root);
    std::abort();
}

// ------------------------------------------------------------------------------------------ verdicts
[[noreturn]] inline void fail(const char* kind, const std::string& msg) {
    Runtime& R = rt();
    if (!R.res.violation) { R.res.violation = true; R.res.kind = kind; R.res.msg = msg; }
    R.abandoned = true;
    if (R.cur) switch_to_root();
    // called from root context (should not happen while active) — abort the process loudly
    std::fprintf(stderr, "vrt::fail outside fiber: %s %s\n", kind, msg.c_str());
    std::abort();
}
#define VRT_CHECK(cond, kind, msg) do { if (!(cond)) ::vrt::fail(kind, msg); } while (0)

// ------------------------------------------------------------------------------------------ mutex / cv cores
struct MutexCore {
    int owner = -1;
    int nshared = 0;
    long excl_acqs = 0;                // number of exclusive acquisitions so far
    long shared_acqs = 0;
    uint8_t shared_by[MAXF] = {0};
    uint32_t contended_by[MAXF] = {0};   // per fiber: blocking / timed acquisitions of THIS mutex that found it unavailable
    VC L, Lr;
    bool can_acquire_excl() const { return owner < 0 && nshared == 0; }
    bool can_acquire_shared() const { return owner < 0; }
};
struct CvCore {
    std::vector<int> waiters;
};

// ------------------------------------------------------------------------------------------ scheduler
inline bool fiber_enabled(Fiber* f) {
    if (f->done || f->frozen) return false;
    switch (f->pend) {
        case P_NONE: return true;
        case P_LOCK: return f->pm->can_acquire_excl();
        case P_LOCK_SHARED: return f->pm->can_acquire_shared();
        case P_TLOCK: return f->pm->can_acquire_excl() || f->timeout_fired;
        case P_TLOCK_SHARED: return f->pm->can_acquire_shared() || f->timeout_fired;
        case P_CV: return f->notified || f->timeout_fired;
        case P_JOIN_ALL: {
            for (Fiber* g : rt().fibers) if (g != f && !g->done) return false;
            return true;
        }
        case P_JOIN_ONE: return rt().fibers[f->join_target]->done;
        case P_JOIN_BOUNDED:
            if (rt().fibers[f->join_target]->done) { f->join_status = 0; return true; }
            if (rt().res.steps >= f->join_deadline) { f->join_status = 2; return true; }
            return f->join_status == 1;
    }
    return false;
}

inline void trace(int id) {
    Result& r = rt().res;
    r.trace_hash = (r.trace_hash ^ (uint64_t)(id + 1)) * 1099511628211ull;
}

// Chooses the next fiber to run; returns nullptr when the case is over (all done) — or never returns
// when a deadlock is diagnosed.
inline Fiber* pick() {
    Runtime& R = rt();
    Fiber* en[MAXF]; int n = 0;
    Fiber* eny[MAXF]; int ny = 0;
    bool any_delayed = false;
    for (int pass = 0; pass < 3; ++pass) {
        n = ny = 0;
        bool all_done = true;
        for (Fiber* f : R.fibers) {
            if (!f->done) all_done = false;
            if (fiber_enabled(f)) {
                if (f->delayed_until > R.res.steps) { any_delayed = true; continue; }
                if (f->yielded) eny[ny++] = f; else en[n++] = f;
            }
        }
        if (all_done) return nullptr;
        if (n + ny > 0) break;
        if (any_delayed) { for (Fiber* f : R.fibers) f->delayed_until = -1; any_delayed = false; pass = -1; continue; }
        if (pass == 0) {
            // nothing can run: fire the time-out of the lowest-id timed waiter (the rest follow in later rounds)
            bool fired = false;
            for (Fiber* f : R.fibers)
                if (!f->done && !f->frozen && f->timed && !f->timeout_fired &&
                    (f->pend == P_TLOCK || f->pend == P_TLOCK_SHARED || f->pend == P_CV)) {
                    f->timeout_fired = true; f->last_timeout_step = R.res.steps; R.res.timeouts_fired++; fired = true; break;
                }
            if (fired) continue;
            pass = 1;
        }
        if (pass == 1) {
            bool any = false;
            for (Fiber* f : R.fibers)
                if (!f->done && !f->frozen && f->pend == P_JOIN_BOUNDED && f->join_status != 1) { f->join_status = 1; any = true; break; }
            if (any) continue;
        }
        // deadlock
        std::string m = "no runnable fiber:";
        int listed = 0, more = 0;
        for (Fiber* f : R.fibers) {
            if (f->done) continue;
            if (listed >= 10) { more++; continue; }
            char b[64];
            std::snprintf(b, sizeof b, " f%d[pend=%d%s]", f->id, (int)f->pend, f->frozen ? ",frozen" : "");
            m += b; listed++;
        }
        if (more) m += " (+" + std::to_string(more) + " more)";
        fail("deadlock", m);
    }
    if (n == 0) { // only yielded fibers can run
        std::memcpy(en, eny, sizeof(Fiber*) * ny); n = ny;
    }
    Fiber* chosen = nullptr;
    if (n == 1) chosen = en[0];
    else if (R.rr_mode) {
        // fair round robin over enabled fibers
        chosen = en[0];
        for (int i = 0; i < n; ++i) if (en[i]->id >= R.rr_next) { chosen = en[i]; break; }
        R.rr_next = chosen->id + 1;
        if (R.rr_next >= (int)R.fibers.size()) R.rr_next = 0;
    } else if (R.spec->mode == 1) {
        chosen = en[0];
        for (int i = 1; i < n; ++i) if (en[i]->prio > chosen->prio) chosen = en[i];
        R.res.decisions++;
    } else if (R.spec->mode == 2) {
        chosen = en[0];
        for (int i = 0; i < n; ++i) if (en[i]->id >= R.rr_next) { chosen = en[i]; break; }
        R.rr_next = chosen->id + 1;
        if (R.rr_next >= (int)R.fibers.size()) R.rr_next = 0;
        R.res.decisions++;
    } else {
        uint8_t b = R.sched_byte();
        R.res.decisions++;
        if (b == 0) {
            for (int i = 0; i < n; ++i) if (en[i] == R.cur) chosen = en[i];
            if (!chosen) { chosen = en[0]; for (int i = 1; i < n; ++i) if (en[i]->last_run < chosen->last_run) chosen = en[i]; }   // least recently run: no starvation among spinners
        } else chosen = en[b % n];
    }
    bool cur_could = false;
    for (int i = 0; i < n; ++i) if (en[i] == R.cur) cur_could = true;
    if (cur_could && chosen != R.cur) R.res.preemptions++;
    if (n > 1) trace(chosen->id);
    return chosen;
}

inline void after_resume() {
    Runtime& R = rt();
    R.cur->last_run = R.res.steps;
    // a fiber has been picked and is about to step: all *other* yielded fibers become eligible again
    for (Fiber* f : R.fibers) if (f != R.cur) f->yielded = false;
}

inline void tick_patience() {
    Runtime& R = rt();
    for (Fiber* f : R.fibers) {
        if (f->done) continue;
        if (f->timed && !f->timeout_fired && f->patience >= 0) {
            if (f->patience == 0) { f->timeout_fired = true; f->last_timeout_step = R.res.steps; R.res.timeouts_fired++; }
            else f->patience--;
        }
        if (f->pend == P_CV && !f->notified && f->spurious_in >= 0) {
            if (f->spurious_in == 0) { f->notified = true; f->spurious_in = -1; R.res.spurious_wakes++; }
            else f->spurious_in--;
        }
    }
}

// One visible step.  The calling fiber has filled in its `pend`; this returns when the fiber has been
// picked with the pending operation enabled.
inline void point() {
    Runtime& R = rt();
    if (!R.active || !R.cur) return;   // code running outside a case (static init etc.)
    Fiber* f = R.cur;
    if (f->bulk > 0 && f->pend == P_NONE) return;   // inside a BulkScope: one indivisible chunk, not counted against the step budget
    R.res.steps++;
    f->own_steps++;
    if (f->freeze_at >= 0 && f->own_steps >= f->freeze_at) { f->frozen = true; f->freeze_at = -1; }
    if (R.step_hook) R.step_hook();
    if (R.spec->mode == 1 && !R.rr_mode) {
        for (long cp : R.pct_change) if (cp == R.res.steps) f->prio = --R.pct_low;
    }
    if (R.res.steps > R.spec->step_budget && !R.rr_mode) { R.rr_mode = true; R.rr_limit = R.res.steps + 50 * 400; }
    if (R.rr_mode && R.res.steps > R.rr_limit) {
        fail("livelock", "no termination under fair round-robin scheduling after the step budget");
    }
    tick_patience();
    Fiber* nx = pick();
    if (!nx) { // everything finished (cannot happen from inside point(): the caller is not done)
        fail("internal", "pick returned null inside point");
    }
    if (nx != f) switch_to_fiber(nx);
    after_resume();
}

inline void fiber_trampoline() {
    Runtime& R = rt();
#ifdef VRT_ASAN
    {
        const void* ob = nullptr; size_t os = 0;
        __sanitizer_finish_switch_fiber(nullptr, &ob, &os);
        if (R.cur->id == 0) { root_stack().bottom = ob; root_stack().size = os; }   // fiber 0 is always entered from the root
    }
#endif
    Fiber* f = R.cur;
    after_resume();
    try {
        f->fn();
    } catch (const InjectedFault& e) {
        fail("escaped-fault", "an injected fault escaped a fiber body (harness bug or undocumented propagation)");
    } catch (const std::exception& e) {
        fail("escaped-exception", std::string("exception escaped fiber: ") + e.what());
    } catch (...) {
        fail("escaped-exception", "unknown exception escaped fiber");
    }
    f->done = true;
    f->fn = nullptr;
    R.res.steps++;
    tick_patience();
    Fiber* nx = pick();
    if (!nx) switch_to_root();
    switch_to_fiber(nx);
    std::abort();
}

inline Fiber* alloc_fiber() {
    Runtime& R = rt();
    size_t idx = R.fibers.size();
    if (idx >= (size_t)MAXF) { std::fprintf(stderr, "vrt: too many fibers\n"); std::abort(); }
    while (R.pool.size() <= idx) {
        Fiber* f = new Fiber();
        f->stack_size = 256 * 1024;
        f->stack = (char*)mmap(nullptr, f->stack_size, PROT_READ | PROT_WRITE, MAP_PRIVATE | MAP_ANONYMOUS, -1, 0);
        if (f->stack == MAP_FAILED) { std::perror("mmap"); std::abort(); }
        R.pool.push_back(f);
    }
    Fiber* f = R.pool[idx];
    f->fn = nullptr;
    f->id = (int)idx; f->started = false; f->done = false; f->pend = P_NONE; f->pm = nullptr; f->pcv = nullptr;
    f->join_target = -1; f->join_status = 0; f->clock.clear(); f->yielded = false; f->frozen = false; f->freeze_at = -1;
    f->own_steps = 0; f->bulk = 0; f->last_run = 0; f->patience = -1; f->timed = false; f->timeout_fired = false; f->notified = false; f->spurious_in = -1;
    f->held = 0; f->mutex_ops = 0; f->blocking_ops = 0; f->timed_failures = 0; f->waited_ns = 0; f->last_timeout_step = -1; f->fault_window = false; f->delayed_until = -1; f->asan_fake = nullptr; f->prio = 0;
    std::memset(f->eh, 0, sizeof f->eh);
#ifdef VRT_ASAN
    __asan_unpoison_memory_region(f->stack, f->stack_size);
#endif
    getcontext(&f->ctx);
    f->ctx.uc_stack.ss_sp = f->stack;
    f->ctx.uc_stack.ss_size = f->stack_size;
    f->ctx.uc_link = nullptr;
    makecontext(&f->ctx, (void (*)())fiber_trampoline, 0);
    R.fibers.push_back(f);
    return f;
}

// spawn a new fiber; the child starts with the parent's clock (spawn edge)
inline int spawn(std::function<void()> fn) {
    Runtime& R = rt();
    Fiber* f = alloc_fiber();
    f->fn = std::move(fn);
    if (R.cur) {
        f->clock = R.cur->clock;
        R.cur->clock.c[R.cur->id]++;
    }
    f->clock.c[f->id]++;
    if (R.spec->mode == 1) {
        size_t i = (size_t)f->id;
        f->prio = 1000 + (i < R.spec->bytes.size() ? R.spec->bytes[i] : 0) * 8 + (7 - f->id);
    }
    return f->id;
}

inline void join_all() {
    Fiber& f = me();
    f.pend = P_JOIN_ALL;
    point();
    f.pend = P_NONE;
    for (Fiber* g : rt().fibers) if (g != &f) f.clock.join(g->clock);
}
inline void join(int id) {
    Fiber& f = me();
    f.pend = P_JOIN_ONE; f.join_target = id;
    point();
    f.pend = P_NONE;
    f.clock.join(rt().fibers[id]->clock);
}
// returns 0 finished, 1 stuck (nothing else could run and target not finished), 2 step bound exceeded
inline int join_bounded(int id, long max_steps) {
    Fiber& f = me();
    f.pend = P_JOIN_BOUNDED; f.join_target = id; f.join_status = -1; f.join_deadline = rt().res.steps + max_steps;
    point();
    f.pend = P_NONE;
    int st = f.join_status;
    if (st == 0) f.clock.join(rt().fibers[id]->clock);
    return st;
}
inline void freeze_after(int id, long own_steps) { rt().fibers[id]->freeze_at = rt().fibers[id]->own_steps + own_steps; if (own_steps == 0) { rt().fibers[id]->frozen = true; rt().fibers[id]->freeze_at = -1; } }
inline void thaw(int id) { rt().fibers[id]->frozen = false; rt().fibers[id]->freeze_at = -1; }
inline bool is_done(int id) { return rt().fibers[id]->done; }
inline bool is_frozen(int id) { return rt().fibers[id]->frozen; }

// plain scheduling point (harness-level: inside payload accesses, functors, predicates ...)
inline void step() { if (rt().cur) { me().pend = P_NONE; point(); } }
// Runs the enclosed code of the calling fiber as one indivisible chunk as far as plain steps (atomic accesses, payload windows)
// are concerned; blocking operations remain scheduling points.  Used to set up large populations (hundreds of handles) cheaply.
struct BulkScope {
    BulkScope() { if (rt().cur) me().bulk++; }
    ~BulkScope() { if (rt().cur) me().bulk--; }
};

inline void yield_now() {
    if (!rt().cur) return;
    Fiber& f = me();
    f.blocking_ops++;
    f.yielded = true;
    if (rt().spec->mode == 1) f.prio = --rt().pct_low;     // PCT: a yielding (spinning) fiber drops below everyone else
    f.pend = P_NONE;
    point();
}

// fault injection
enum FaultKind : unsigned { F_FUNCTOR = 1, F_COPY = 2, F_ASSIGN = 4, F_COMPARE = 8, F_CALLBACK = 16, F_PRED = 32, F_DTOR = 64, F_ALLOC = 128 };
inline void fault_point(unsigned kind) {
    Runtime& R = rt();
    if (!R.active || !R.spec->fault_k || R.faults_off) return;
    if (!(kind & R.spec->fault_mask)) return;
    if (R.faults_need_window && !(R.cur && R.cur->fault_window)) return;
    if (++R.fault_counter == R.spec->fault_k) { R.res.faults_fired++; if (R.spec->fault_std) throw InjectedStdFault((int)R.fault_counter); throw InjectedFault{(int)R.fault_counter}; }
}

inline void disable_faults() { rt().faults_off = true; }

// Run one case: `body` executes as fiber 0.
inline Result run(const SchedSpec& spec, std::function<void()> body) {
    Runtime& R = rt();
    R.fibers.clear();
    R.cur = nullptr;
    R.spec = &spec;
    R.sched_pos = R.aux_pos = 0;
    R.res = Result();
    R.abandoned = false;
    R.rr_mode = false; R.rr_next = 0;
    R.fault_counter = 0; R.faults_off = false; R.faults_need_window = false;
    R.freed.clear();
    R.mutexes.clear();
    R.pct_change.clear(); R.pct_low = 0;
    if (spec.mode == 1) {
        for (size_t i = MAXF; i + 1 < spec.bytes.size() && R.pct_change.size() < 4; i += 2)
            R.pct_change.push_back(1 + spec.bytes[i] + 256 * (spec.bytes[i + 1] & 1));
    }
    R.active = true;
    spawn(std::move(body));
    std::memset(R.root_eh, 0, sizeof R.root_eh);
    switch_to_fiber(R.fibers[0]);
    // back in root: case finished, abandoned or deadlocked
    R.active = false;
    R.cur = nullptr;
    for (Fiber* f : R.fibers) f->fn = nullptr;   // note: leaks captured state of abandoned fibers by design
    return R.res;
}

// ------------------------------------------------------------------------------------------ happens-before shadow state
struct Shadow {
    int w_f = -1; uint32_t w_c = 0;          // last write epoch
    uint32_t r[MAXF] = {0};                  // read clock per fiber
    bool any_read = false;
    bool hb_exempt = false;
};

inline void hb_read(Shadow& s, const char* what) {
    if (!rt().cur) return;
    Fiber& f = me();
    if (s.w_f >= 0 && s.w_f != f.id && s.w_c > f.clock.c[s.w_f])
        fail("race", std::string("read of ") + what + " by f" + std::to_string(f.id) + " not ordered after write by f" + std::to_string(s.w_f));
    s.r[f.id] = f.clock.c[f.id]; s.any_read = true;
}
inline void hb_write(Shadow& s, const char* what) {
    if (!rt().cur) return;
    Fiber& f = me();
    if (s.w_f >= 0 && s.w_f != f.id && s.w_c > f.clock.c[s.w_f])
        fail("race", std::string("write of ") + what + " by f" + std::to_string(f.id) + " not ordered after write by f" + std::to_string(s.w_f));
    if (s.any_read)
        for (int i = 0; i < MAXF; ++i)
            if (i != f.id && s.r[i] > f.clock.c[i])
                fail("race", std::string("write of ") + what + " by f" + std::to_string(f.id) + " not ordered after read by f" + std::to_string(i));
    s.w_f = f.id; s.w_c = f.clock.c[f.id];
    if (s.any_read) { std::memset(s.r, 0, sizeof s.r); s.any_read = false; }
}

// ------------------------------------------------------------------------------------------ freed-memory registry
inline void note_freed(void* p, size_t n, int id) { rt().freed.push_back({(uintptr_t)p, (uintptr_t)p + n, id}); }
inline void check_live_addr(const void* p, const char* what) {
    Runtime& R = rt();
    if (R.freed.empty()) return;
    uintptr_t a = (uintptr_t)p;
    for (const FreedBlock& b : R.freed)
        if (a >= b.lo && a < b.hi)
            fail("use-after-free", std::string(what) + " touches freed block #" + std::to_string(b.id));
}

} // namespace vrt
